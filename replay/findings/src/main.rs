// Replays the concrete input of each known finding (/verif/known_findings.json) against the real
// library (public API, /repo's current tree).  Prints `REPRODUCED <id> ...` or `GONE <id>`.
use jiff::{civil::{date, DateTime, Weekday}, tz::TimeZone, Timestamp, Unit, Zoned};
use std::panic::{catch_unwind, AssertUnwindSafe};

fn run(id: &str, f: impl FnOnce() -> Option<String>) {
    match catch_unwind(AssertUnwindSafe(f)) {
        Ok(Some(what)) => println!("REPRODUCED {id} {what}"),
        Ok(None) => println!("GONE {id}"),
        Err(_) => println!("REPRODUCED {id} panicked"),
    }
}

fn main() {
    std::panic::set_hook(Box::new(|_| {}));
    let want: Vec<String> = std::env::args().skip(1).collect();
    let on = |id: &str| want.is_empty() || want.iter().any(|w| w == id);
    if on("F7") {
        run("F7", || {
            // a fold that crosses midnight backwards: Antarctica/Casey went from +11 to +08 at 2010-03-05T02:00+11 (= 2010-03-04T23:00+08)
            let tz = TimeZone::get("Antarctica/Casey").ok()?;
            let a: Zoned = "2010-03-05T00:25:00+08:00[Antarctica/Casey]".parse().ok()?;
            let b: Zoned = "2010-03-04T23:25:00+08:00[Antarctica/Casey]".parse().ok()?;
            let _ = tz;
            let r = a.until((Unit::Day, &b));   // panics: "this should be an error"
            match r { Ok(_) | Err(_) => None }
        });
    }
    if on("F19") {
        run("F19", || {
            let a: Zoned = "2010-03-05T00:25:00+11:00[Antarctica/Casey]".parse().ok()?;
            let b: Zoned = "2010-03-04T23:25:00+08:00[Antarctica/Casey]".parse().ok()?;   // two hours LATER than a
            let s = a.until((Unit::Day, &b)).ok()?;
            let back = a.checked_add(s).ok()?;
            if back != b || s.is_negative() { Some(format!("{a} until {b} (2 h later) = {s:?}; a + s = {back}")) } else { None }
        });
    }
    if on("F23") {
        run("F23", || {
            let a: Zoned = "2024-11-01T01:30:00-04:00[America/New_York]".parse().ok()?;
            let b: Zoned = "2024-11-03T01:20:00-05:00[America/New_York]".parse().ok()?;   // the second 01:20 of the fall-back day
            let s = a.until((Unit::Day, &b)).ok()?;
            let two_days = a.checked_add(jiff::Span::new().days(2)).ok()?;
            // balanced would mean: one more whole day would pass b.  It does not: a + 2d <= b.
            if s.get_days() == 1 && two_days <= b { Some(format!("{a} until {b} = {s:?}, but a + 2d = {two_days} is still <= b (balanced result: 2d 50m)")) } else { None }
        });
    }
    if on("F24") {
        run("F24", || {
            // RFC 3339 date-fullyear is exactly 4 digits: there is no RFC 3339 text for an instant before year 0
            let ts: Timestamp = "-000001-06-15T12:00:00Z".parse().ok()?;
            let text = ts.to_string();
            let rfc3339_year = text.len() > 4 && text.as_bytes()[..4].iter().all(|b| b.is_ascii_digit()) && text.as_bytes()[4] == b'-';
            if !rfc3339_year { Some(format!("Timestamp prints as {text} (ISO 8601 expanded year, not RFC 3339); Timestamp::MIN prints as {}", Timestamp::MIN)) } else { None }
        });
    }
    if on("F25") {
        run("F25", || {
            let r = jiff::SignedDuration::try_from_secs_f64(9223372036854775808.0);
            match r { Ok(d) => Some(format!("try_from_secs_f64(2^63) = Ok({} s, {} ns) although 2^63 s is unrepresentable", d.as_secs(), d.subsec_nanos())), Err(_) => None }
        });
    }
    if on("F26") {
        run("F26", || {
            let r = jiff::civil::Date::strptime("%A, %B %d, %Y", "Tuesday, July 16, 2024");
            match r { Err(e) => Some(format!("strptime(%A, \"Tuesday, ...\") = Err({e})")), Ok(_) => None }
        });
    }
    if on("F27") {
        run("F27", || {
            use jiff::{RoundMode, SpanRound, ToSpan};
            let r = date(2025, 1, 1);
            let cfg = |largest| SpanRound::new().smallest(Unit::Month).increment(5).mode(RoundMode::Expand).largest(largest).relative(r);
            let y = 11.months().round(cfg(Unit::Year)).ok()?;
            let m = 11.months().round(cfg(Unit::Month)).ok()?;
            // same rounding, different largest unit: r + result must be the same instant (15 months later)
            let (ey, em) = (r.checked_add(y).ok()?, r.checked_add(m).ok()?);
            if ey != em { Some(format!("11mo rounded to 5-month increments (Expand): largest=month gives {m:?} (-> {em}), largest=year gives {y:?} (-> {ey})")) } else { None }
        });
    }
    if on("F28") {
        run("F28", || {
            let tz = TimeZone::get("Africa/Ndjamena").ok()?;
            // 1912-01-01T00:00:00 LMT (+01:00:12) the clocks went back 12 s: the civil second 23:59:59 occurs twice
            let t1: Timestamp = "1911-12-31T22:59:47Z".parse().ok()?;
            let t2 = Timestamp::from_second(t1.as_second() + 12).ok()?;
            let (z1, z2) = (Zoned::new(t1, tz.clone()), Zoned::new(t2, tz.clone()));
            let (s1, s2) = (z1.to_string(), z2.to_string());
            if s1 == s2 && z1 != z2 { Some(format!("two instants 12 s apart both print {s1}")) } else { None }
        });
    }
    if on("F8") {
        run("F8", || {
            let tz = TimeZone::posix("EST5EDT,0/0,J365/25").ok()?;
            let ts: Timestamp = "2025-01-01T02:00:00Z".parse().ok()?;
            let off = tz.to_offset(ts);
            // RFC 8536's "DST all year": 2025-01-01T02:00Z is still inside the DST period that ends J365/25 (EDT)
            if off.seconds() == -5 * 3600 { Some(format!("offset {off} (EST) at 2025-01-01T02:00Z, expected -04")) } else { None }
        });
    }
    if on("F14") {
        run("F14", || {
            let r = date(-9999, 1, 1).nth_weekday(1043498, Weekday::Tuesday);
            match r { Err(e) => Some(format!("Err({e}) but the 1043498th Tuesday after -9999-01-01 is 9999-12-28")), Ok(_) => None }
        });
    }
    if on("F3") {
        run("F3", || {
            use jiff::ToSpan;
            let t = jiff::civil::time(0, 0, 0, 0).wrapping_add(2_562_048.hours());
            if t != jiff::civil::time(0, 0, 0, 0) { Some(format!("time(0,0,0,0).wrapping_add(2_562_048.hours()) == {t}, exact arithmetic modulo 24h gives 00:00:00")) } else { None }
        });
    }
    if on("F17") {
        run("F17", || {
            let r = date(-9999, 1, 1).until((Unit::Month, date(9999, 2, 1)));
            match r { Err(e) => Some(format!("date(-9999,1,1).until((Unit::Month, date(9999,2,1))) -> Err({e})")), Ok(_) => None }
        });
    }
    if on("F16") {
        run("F16", || {
            let tz = TimeZone::posix("AAA0BBB,J365/23:30,J1/0").ok()?;
            let at_max = tz.to_ambiguous_timestamp(DateTime::MAX).offset();
            let before = tz.to_ambiguous_timestamp(DateTime::MAX.checked_sub(jiff::SignedDuration::from_nanos(1)).ok()?).offset();
            let s1 = format!("{at_max:?}"); let s2 = format!("{before:?}");
            if s2.starts_with("Gap") && !s1.starts_with("Gap") { Some(format!("DateTime::MAX -> {s1}, one nanosecond earlier -> {s2}")) } else { None }
        });
    }
}
