#!/bin/sh
# Offline setup: nothing to download or build ahead of time.  Checks that the tools are present
# and that the extractor runs on /repo.
set -e
cd "$(dirname "$0")"
command -v verus >/dev/null
command -v cargo-kani >/dev/null || command -v kani >/dev/null
mkdir -p build evidence replays
python3 -c "import sys; sys.path.insert(0,'.'); from vfw import extract; u=extract.Unit('contracts/verus/itime.vrs'); em=extract.build(u,'/repo'); assert len(em.functions)>=30"
echo setup-ok
