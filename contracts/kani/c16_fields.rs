//@inject src/fmt/strtime/format.rs
//! C16 (formatter side, continued): the remaining numeric conversion specifiers through the real `Formatter::fmt_*`
//! methods into a fixed buffer.  The rendering of an integer is stated ONCE (`is_int`): an optional '-', then padding
//! up to the field width, then the decimal digits without leading zeros; every harness states which value, which pad
//! byte and which width a specifier uses.  The digit/padding loops are bounded by the 20-byte `Decimal` buffer, the 9-byte
//! `Fractional` buffer and the 24-byte writer, so each harness's `unwind` bound is complete (the unwinding assertions are
//! checked and hold) and each harness that is not marked `//@bounded` is a proof for ALL values of its domain.
//! Where a callee is replaced, the stub and the harness that discharges the callee are named in the //@doc.
use super::*;
use crate::civil::{Date, DateTime, Time, Weekday};
use crate::shared::util::itime::{IDate, IEpochDay};
use crate::util::t;
use crate::verif_kani::spec::*;
use crate::fmt::strtime::Meridiem;

pub struct Buf { pub b: [u8; 24], pub n: usize, pub overflow: bool }
impl Buf { pub fn new() -> Buf { Buf { b: [0; 24], n: 0, overflow: false } } }
impl crate::fmt::Write for Buf {
    fn write_str(&mut self, s: &str) -> Result<(), Error> {
        let bytes = s.as_bytes();
        let mut i = 0;
        while i < bytes.len() {
            if self.n >= 24 { self.overflow = true; return Ok(()); }
            self.b[self.n] = bytes[i];
            self.n += 1;
            i += 1;
        }
        Ok(())
    }
}
const NOEXT: Extension = Extension { flag: None, width: None };

/// decimal value of b[from..to] (all bytes must be ASCII digits), else -1
fn num(b: &[u8; 24], from: usize, to: usize) -> i64 {
    let mut v: i64 = 0;
    let mut i = 0;
    while i < 24 {
        if from <= i && i < to {
            let c = b[i];
            if c < b'0' || c > b'9' { return -1; }
            v = v * 10 + (c - b'0') as i64;
        }
        i += 1;
    }
    v
}
/// number of decimal digits of a >= 0 (by comparison; 13 digits are enough for every value printed here)
fn ndigits(a: i64) -> usize {
    if a < 10 { 1 } else if a < 100 { 2 } else if a < 1_000 { 3 } else if a < 10_000 { 4 } else if a < 100_000 { 5 }
    else if a < 1_000_000 { 6 } else if a < 10_000_000 { 7 } else if a < 100_000_000 { 8 } else if a < 1_000_000_000 { 9 }
    else if a < 10_000_000_000 { 10 } else if a < 100_000_000_000 { 11 } else if a < 1_000_000_000_000 { 12 } else { 13 }
}
/// THE rendering of the integer v with pad byte `pad` and minimum digit count `width`:
/// ['-' if v < 0] ++ pad^(max(width, nd) - nd) ++ the nd decimal digits of |v| (no leading zero unless |v| == 0)
fn is_int(w: &Buf, v: i64, pad: u8, width: usize) -> bool {
    let a = if v < 0 { -v } else { v };
    let nd = ndigits(a);
    let sign = if v < 0 { 1 } else { 0 };
    let padn = if width > nd { width - nd } else { 0 };
    if w.overflow || w.n != sign + padn + nd { return false; }
    if sign == 1 && w.b[0] != b'-' { return false; }
    let mut i = 0;
    while i < 24 {
        if sign <= i && i < sign + padn && w.b[i] != pad { return false; }
        i += 1;
    }
    num(&w.b, sign + padn, w.n) == a && (nd == 1 || w.b[sign + padn] != b'0')
}

fn any_time() -> (Time, i64, i64, i64, i64) {
    let h: i8 = kani::any(); kani::assume(0 <= h && h <= 23);
    let m: i8 = kani::any(); kani::assume(0 <= m && m <= 59);
    let s: i8 = kani::any(); kani::assume(0 <= s && s <= 59);
    let ns: i32 = kani::any(); kani::assume(0 <= ns && ns <= 999_999_999);
    let tm = Time::new_ranged(t::Hour::new_unchecked(h), t::Minute::new_unchecked(m), t::Second::new_unchecked(s), t::SubsecNanosecond::new_unchecked(ns));
    (tm, h as i64, m as i64, s as i64, ns as i64)
}

//@harness c16_fmt_clock_fields
//@target fmt::strtime::format::Formatter::{fmt_hour24_zero,fmt_hour24_space,fmt_hour12_zero,fmt_hour12_space,fmt_minute,fmt_second} (%H %k %I %l %M %S) (src/fmt/strtime/format.rs)
//@prop C16
//@tier quick
//@timeout 600
//@doc for every civil time: %H / %M / %S print the hour / minute / second as exactly 2 digits, zero padded; %k the hour space padded to 2; %I and %l print the 12-hour clock hour (h + 11) mod 12 + 1 (the C library definition: 0 -> 12, 12 -> 12, 13 -> 1), zero resp. space padded to 2
#[kani::proof]
#[kani::unwind(26)]
fn c16_fmt_clock_fields() {
    let (time, h, m, s, _) = any_time();
    let tm = BrokenDownTime::from(time);
    let h12 = (h + 11) % 12 + 1;
    let which: u8 = kani::any();
    kani::assume(which < 6);
    let mut w = Buf::new();
    let r = {
        let mut f = Formatter { fmt: b"", tm: &tm, wtr: &mut w };
        match which {
            0 => f.fmt_hour24_zero(NOEXT),
            1 => f.fmt_hour24_space(NOEXT),
            2 => f.fmt_hour12_zero(NOEXT),
            3 => f.fmt_hour12_space(NOEXT),
            4 => f.fmt_minute(NOEXT),
            _ => f.fmt_second(NOEXT),
        }
    };
    assert!(r.is_ok());
    match which {
        0 => assert!(is_int(&w, h, b'0', 2) && w.n == 2),
        1 => assert!(is_int(&w, h, b' ', 2) && w.n == 2),
        2 => assert!(is_int(&w, h12, b'0', 2) && w.n == 2),
        3 => assert!(is_int(&w, h12, b' ', 2) && w.n == 2),
        4 => assert!(is_int(&w, m, b'0', 2) && w.n == 2),
        _ => assert!(is_int(&w, s, b'0', 2) && w.n == 2),
    }
}

fn any_flag() -> Option<Flag> {
    let k: u8 = kani::any();
    kani::assume(k < 6);
    match k { 0 => None, 1 => Some(Flag::PadSpace), 2 => Some(Flag::PadZero), 3 => Some(Flag::NoPad), 4 => Some(Flag::Uppercase), _ => Some(Flag::Swapcase) }
}

//@harness c16_fmt_ampm
//@target fmt::strtime::format::Formatter::{fmt_ampm_upper,fmt_ampm_lower,fmt_hour12_zero} + Extension::write_str + BrokenDownTime::hour_ranged (%p %P with every flag, against %I) (src/fmt/strtime/format.rs, src/fmt/strtime/mod.rs)
//@prop C16
//@tier thorough
//@timeout 2400
//@doc for each of the 24 hours (enumerated, so that the case mapping runs on concrete characters), every flag (none _ 0 - ^ #) and every width: %p prints "AM" for hours 0..=11 and "PM" for 12..=23, %P the same in lower case; `^` forces upper case, `#` swaps the case of %p ("am"/"pm") and leaves %P as it is; padding flags and widths do nothing.  Agreement with %I: midnight is 12 AM, noon is 12 PM, and the 12-hour reading (I, AM/PM) that %I and %p print denotes the original hour: BrokenDownTime{hour: I, meridiem}.hour_ranged() == h (the reconciliation the parser side uses for %I %p)
#[kani::proof]
#[kani::unwind(26)]
fn c16_fmt_ampm() {
    let flag = any_flag();
    let ext = Extension { flag, width: kani::any() };
    let upper: bool = kani::any();
    let mut h: i8 = 0;
    while h < 24 {
        ampm_one(h, flag, ext, upper);
        h += 1;
    }
}
fn ampm_one(h: i8, flag: Option<Flag>, ext: Extension, upper: bool) {
    let time = Time::new_ranged(t::Hour::new_unchecked(h), t::Minute::new_unchecked(0), t::Second::new_unchecked(0), t::SubsecNanosecond::new_unchecked(0));
    let tm = BrokenDownTime::from(time);
    let mut w = Buf::new();
    let r = {
        let mut f = Formatter { fmt: b"", tm: &tm, wtr: &mut w };
        if upper { f.fmt_ampm_upper(ext) } else { f.fmt_ampm_lower(ext) }
    };
    assert!(r.is_ok() && !w.overflow && w.n == 2);
    let pm = h >= 12;
    let want_upper = match flag { Some(Flag::Uppercase) => true, Some(Flag::Swapcase) => false, _ => upper };
    let (c0, c1) = if want_upper { (if pm { b'P' } else { b'A' }, b'M') } else { (if pm { b'p' } else { b'a' }, b'm') };
    assert!(w.b[0] == c0 && w.b[1] == c1);
    // the 12-hour reading printed by %I
    let mut w2 = Buf::new();
    let r2 = { let mut f = Formatter { fmt: b"", tm: &tm, wtr: &mut w2 }; f.fmt_hour12_zero(NOEXT) };
    assert!(r2.is_ok() && w2.n == 2);
    let i12 = num(&w2.b, 0, 2);
    assert!(1 <= i12 && i12 <= 12);
    if h == 0 { assert!(i12 == 12 && !pm); }
    if h == 12 { assert!(i12 == 12 && pm); }
    // ... read back the way the parser reconciles %I with %p
    let back = BrokenDownTime {
        hour: Some(t::Hour::new_unchecked(i12 as i8)),
        meridiem: Some(if pm { Meridiem::PM } else { Meridiem::AM }),
        ..BrokenDownTime::default()
    };
    assert!(back.hour_ranged().map(|x| x.get()) == Some(h));
}

//@harness c16_fmt_date_fields
//@target fmt::strtime::format::Formatter::{fmt_year,fmt_century,fmt_year2,fmt_month,fmt_day_zero,fmt_day_space} (%Y %C %y %m %d %e) (src/fmt/strtime/format.rs)
//@prop C16
//@tier quick
//@timeout 900
//@doc for every date -9999-01-01..=9999-12-31: %Y prints the year as '-' (negative years only) followed by the absolute value zero padded to 4 digits ("2024", "0024", "-0024"; no '+'); %C prints the year divided by 100 truncated toward zero (the C standard's wording), unpadded, so years -99..=99 give "0" and -199..=-100 give "-1"; %y is Ok exactly for years 1969..=2068 and then prints year mod 100 as 2 digits, Err otherwise (documented jiff restriction; the C library prints year mod 100 for every year); %m and %d are 2 digits zero padded; %e is space padded to 2
#[kani::proof]
#[kani::unwind(26)]
fn c16_fmt_date_fields() {
    let dt = any_date();
    let (y, m, d) = ymd(dt);
    let tm = BrokenDownTime::from(dt);
    let which: u8 = kani::any();
    kani::assume(which < 6);
    let mut w = Buf::new();
    let r = {
        let mut f = Formatter { fmt: b"", tm: &tm, wtr: &mut w };
        match which {
            0 => f.fmt_year(NOEXT),
            1 => f.fmt_century(NOEXT),
            2 => f.fmt_year2(NOEXT),
            3 => f.fmt_month(NOEXT),
            4 => f.fmt_day_zero(NOEXT),
            _ => f.fmt_day_space(NOEXT),
        }
    };
    match which {
        0 => assert!(r.is_ok() && is_int(&w, y, b'0', 4) && w.n == if y < 0 { 5 } else { 4 }),
        1 => assert!(r.is_ok() && is_int(&w, y / 100, b' ', 0)),
        2 => {
            assert!(r.is_ok() == (1969 <= y && y <= 2068));
            if r.is_ok() { assert!(is_int(&w, y % 100, b'0', 2) && w.n == 2); }
        }
        3 => assert!(r.is_ok() && is_int(&w, m, b'0', 2) && w.n == 2),
        4 => assert!(r.is_ok() && is_int(&w, d, b'0', 2) && w.n == 2),
        _ => assert!(r.is_ok() && is_int(&w, d, b' ', 2) && w.n == 2),
    }
}

// ---- ISO 8601 week-based year and week (%G %g %V)
// reference: the ISO 8601 week-based year and week number of a date = the calendar year of the Thursday of the date's
// Monday-based week, and 1 + (that Thursday's 0-based ordinal day) / 7.  `iso_wd` is the date's weekday (1 = Monday)
fn iso_ref(y: i64, m: i64, d: i64, iso_wd: i64) -> (i64, i64) {
    let td = doy(y, m, d) + (4 - iso_wd);                       // ordinal day of that Thursday, counted in year y
    if td < 1 {
        (y - 1, (td + diy(y - 1) - 1) / 7 + 1)
    } else if td > diy(y) {
        (y + 1, (td - diy(y) - 1) / 7 + 1)
    } else {
        (y, (td - 1) / 7 + 1)
    }
}
// ---- the day count E around one "hint" year, axiomatised (no Neri-Schneider code, no closed form):
//   E(y,m,d) = J(y) + doy(y,m,d) - 1           (greg.vrs lemma_doy_rd)
//   J(y+1)   = J(y) + days_in_year(y)           (greg.vrs lemma_rd_year)
// for the four years hint-1 ..= hint+2, with J(hint) arbitrary such that the three years hint-1..=hint+1 lie in the supported range, and the two range
// anchors J(-9999) = -4371587 and J(9999) = 2932532 (lemma_rd_bounds: E(9999,12,31) = 2932896).  Every fact is one the Verus
// unit itime proves of the real `IDate::to_epoch_day`; `IEpochDay::to_date` is its inverse.  Both stubs ASSERT that they are
// only asked about these years, so nothing is assumed elsewhere.
static mut AX_H: i32 = 0;
static mut AX_J: i32 = 0;
fn ax_init(h: i32) {
    let j: i32 = kani::any();
    kani::assume(E_MIN <= j && j <= E_MAX - 364);
    if h == -9999 { kani::assume(j == E_MIN); }
    if h == 9999 { kani::assume(j == 2932532); }
    unsafe { AX_H = h; AX_J = j; }
    // every day of the years hint-1 ..= hint+1 that exists lies in the supported range (lemma_rd_bounds + monotonicity)
    if h > -9999 { kani::assume(ax_jan1(h - 1) >= E_MIN); }
    if h < 9999 { kani::assume(ax_jan1(h + 2) - 1 <= E_MAX); }
}
fn ax_jan1(y: i32) -> i32 {
    let (h, j) = unsafe { (AX_H, AX_J) };
    if y == h { j }
    else if y == h + 1 { j + diy(h as i64) as i32 }
    else if y == h + 2 { j + diy(h as i64) as i32 + diy(h as i64 + 1) as i32 }
    else if y == h - 1 { j - diy(h as i64 - 1) as i32 }
    else { assert!(false, "day count asked about a year outside hint-1..=hint+2"); 0 }
}
fn ax_e(y: i64, m: i64, d: i64) -> i64 { ax_jan1(y as i32) as i64 + doy(y, m, d) - 1 }
fn ax_to_epoch_day(d: &IDate) -> IEpochDay {
    // precondition of the verified contract: a supported date, or 10000-01-04 (the one extra date the ISO week code builds, see c01_isoweek)
    assert!(valid(d.year as i64, d.month as i64, d.day as i64) || (d.year == 10000 && d.month == 1 && d.day == 4));
    IEpochDay { epoch_day: ax_e(d.year as i64, d.month as i64, d.day as i64) as i32 }
}
fn ax_to_date(e: &IEpochDay) -> IDate {
    assert!(E_MIN <= e.epoch_day && e.epoch_day <= E_MAX);
    let h = unsafe { AX_H };
    let d = IDate { year: kani::any(), month: kani::any(), day: kani::any() };
    kani::assume(valid(d.year as i64, d.month as i64, d.day as i64));
    let mut hit = false;
    let mut i = -1;
    while i <= 1 {
        let yy = h + i;
        if -9999 <= yy && yy <= 9999 {
            let k = (e.epoch_day - ax_jan1(yy)) as i64;
            if 0 <= k && k < diy(yy as i64) {
                kani::assume(d.year as i32 == yy && doy(yy as i64, d.month as i64, d.day as i64) == k + 1);
                hit = true;
            }
        }
        i += 1;
    }
    assert!(hit, "to_date asked about a day outside the years hint-1..=hint+1");
    d
}
// the weekday of a day number near the hint year, W(e) = (W(J(hint)) + (e - J(hint))) mod 7 -- what the contract of
// `IEpochDay::weekday` (wd(e) = (e + 3) mod 7, Verus unit itime) says, written relative to January 1 of the hint year so
// that the model checker reasons modulo 7 about small numbers only; W(J(hint)) is arbitrary (0 = Monday) except at the anchors
static mut AX_W0: i16 = 0;
fn ax_init_weekday(h: i32) {
    let w0: i16 = kani::any();
    kani::assume(0 <= w0 && w0 <= 6);
    if h == -9999 { kani::assume(w0 == 0); }   // -9999-01-01 is a Monday: (-4371587 + 3) mod 7 == 0
    if h == 9999 { kani::assume(w0 == 4); }    // 9999-01-01 is a Friday: (2932532 + 3) mod 7 == 4
    unsafe { AX_W0 = w0; }
}
fn ax_wd0(e: i64) -> i16 {
    let (j, w0) = unsafe { (AX_J, AX_W0) };
    let k = e - j as i64;
    assert!(-800 <= k && k <= 1200, "weekday asked about a day far from the hint year");
    (w0 + k as i16).rem_euclid(7)
}
fn ax_weekday(e: &IEpochDay) -> crate::shared::util::itime::IWeekday {
    crate::shared::util::itime::IWeekday::from_monday_zero_offset(ax_wd0(e.epoch_day as i64) as i8)
}

//@harness c16_iso_week_date
//@target civil::Date::iso_week_date + iso_week_start_from_year + Date::from_unix_epoch_day (the value behind %G %g %V) (src/civil/date.rs)
//@prop C16 C01
//@tier quick
//@timeout 900
//@doc for every date: the real `Date::iso_week_date` returns the ISO 8601 week-based year and week defined by the Thursday rule (year = calendar year of the Thursday of the date's Monday-based week, week = 1 + (that Thursday's ordinal day - 1) / 7, always 1..=53) and the date's weekday; the `.expect` inside cannot fail; `iso_week_start_from_year` is never asked about year -10000.  The two Neri-Schneider conversions are replaced by the axiomatised day count around the date's year (ax_init) and `IEpochDay::weekday` by the same function written relative to January 1 of that year (ax_init_weekday); day number and weekday of January 1 are arbitrary, which covers every real year
#[kani::proof]
#[kani::stub(IDate::to_epoch_day, ax_to_epoch_day)]
#[kani::stub(IEpochDay::to_date, ax_to_date)]
#[kani::stub(IEpochDay::weekday, ax_weekday)]
#[kani::unwind(6)]
fn c16_iso_week_date() {
    let dt = any_date();
    let (y, m, d) = ymd(dt);
    ax_init(y as i32);
    ax_init_weekday(y as i32);
    let iso_wd = ax_wd0(ax_e(y, m, d)) as i64 + 1;
    let (gy, gw) = iso_ref(y, m, d, iso_wd);
    let got = dt.iso_week_date();
    assert!(got.year() as i64 == gy && got.week() as i64 == gw && wnum(got.weekday()) == iso_wd);
    assert!(1 <= gw && gw <= 53);
    // the assumptions of the axiomatised stubs are satisfiable in every interesting corner
    kani::cover!(gw == 53 && gy == y - 1);
    kani::cover!(gw == 1 && gy == y + 1);
    kani::cover!(gw == 53 && gy == y);
    kani::cover!(y == 9999 && m == 12 && d == 31);
    kani::cover!(y == -9999 && m == 1 && d == 1);
}

use crate::verif_kani::memo::*;

// ---- %s
use crate::tz::Offset as Off;
use crate::Timestamp;

fn any_zoned_fields(zero_fraction: bool) -> (BrokenDownTime, i64) {
    let dt = any_date();
    let (y, m, d) = ymd(dt);
    let (time, h, mi, s, ns) = any_time();
    if zero_fraction { kani::assume(ns == 0); }
    let off: i32 = kani::any();
    kani::assume(-93599 <= off && off <= 93599);
    let tm = BrokenDownTime { offset: Some(Off::from_seconds_unchecked(off)), ..BrokenDownTime::from(DateTime::from_parts(dt, time)) };
    (tm, e_of(y, m, d) * 86400 + h * 3600 + mi * 60 + s - off as i64)
}

//@harness c16_timestamp_value
//@target fmt::strtime::BrokenDownTime::{to_timestamp,to_datetime,to_date,to_time,to_offset} (the value behind %s, from the fields a Zoned / Timestamp fills in) (src/fmt/strtime/mod.rs)
//@prop C16 C02
//@tier quick
//@timeout 600
//@doc for every civil datetime WITH ZERO FRACTION and every offset -93599..=93599 (the fields From<&Zoned> / From<Timestamp> store): to_timestamp is Ok exactly when N = E(date)*86400 + h*3600 + m*60 + s - offset lies within Timestamp::MIN..=Timestamp::MAX seconds, and then its as_second() is N (the C library's "seconds since the Epoch" of the broken-down time); E is the Verus-proved day count (axiomatised memo stub).  With a fraction see c16_timestamp_fraction_floor
#[kani::proof]
#[kani::stub(IDate::to_epoch_day, memo_to_epoch_day)]
#[kani::unwind(6)]
fn c16_timestamp_value() {
    let (tm, want) = any_zoned_fields(true);
    let r = tm.to_timestamp();
    assert!(r.is_ok() == (-377705023201 <= want && want <= 253402207200));
    if let Ok(ts) = r { assert!(ts.as_second() == want && ts.subsec_nanosecond() == 0); }
}

//@harness c16_timestamp_fraction_floor
//@target fmt::strtime::format::Formatter::fmt_timestamp = BrokenDownTime::to_timestamp().as_second() (%s of an instant with a fractional second) (src/fmt/strtime/format.rs)
//@prop C16
//@tier quick
//@timeout 600
//@doc as c16_timestamp_value for every fraction 0..=999_999_999 ns: the number %s prints is the Unix time of the civil second that the same value's %S (and %Y-%m-%d %H:%M) print, i.e. floor(instant) = as_second() - [subsec < 0] -- "seconds since the Epoch" of the broken-down fields, as mktime()/strftime define it (jiff 0.2.8 printed as_second(), which truncates toward zero: 1969-12-31T23:59:59.5Z gave "0|59"; fixed in /repo bbd1f70)
#[kani::proof]
#[kani::stub(IDate::to_epoch_day, memo_to_epoch_day)]
#[kani::unwind(6)]
fn c16_timestamp_fraction_floor() {
    let (tm, want) = any_zoned_fields(false);
    // floor(instant): the whole seconds at or before it (what fmt_timestamp prints: see c16_fmt_timestamp_print)
    if let Ok(ts) = tm.to_timestamp() { assert!(ts.as_second() - (if ts.subsec_nanosecond() < 0 { 1 } else { 0 }) == want); }
}

/// the plain rendering of v (|v| < 10^13): ['-'] ++ the decimal digits of |v|, nothing else.  The digits are stated by their
/// definition: there are ndigits(|v|) of them (no leading zero) and digit j, counted from the right, is (|v| / 10^j) mod 10
fn is_plain_decimal(w: &Buf, v: i64) -> bool {
    let a = if v < 0 { -v } else { v };
    let nd = ndigits(a);
    let sign = if v < 0 { 1 } else { 0 };
    if w.overflow || w.n != sign + nd { return false; }
    if sign == 1 && w.b[0] != b'-' { return false; }
    let mut rem = a;
    let mut i = 0;
    while i < 13 {
        if i < nd {
            if w.b[w.n - 1 - i] != b'0' + (rem % 10) as u8 { return false; }
            rem /= 10;
        }
        i += 1;
    }
    rem == 0
}
static mut STUB_SECOND: i64 = 0;
fn stub_to_timestamp(_tm: &BrokenDownTime) -> Result<Timestamp, Error> {
    if kani::any() {
        let s: i64 = kani::any();
        kani::assume(-377705023201 <= s && s <= 253402207200);
        // any sub-second part of the sign of s (Timestamp's invariant); the printed value is the floor
        let n: i32 = kani::any();
        kani::assume(-999_999_999 <= n && n <= 999_999_999 && !(s > 0 && n < 0) && !(s < 0 && n > 0) && !(s == -377705023201 && n < 0));
        unsafe { STUB_SECOND = if n < 0 { s - 1 } else { s }; }
        Ok(Timestamp::from_itimestamp_const(crate::shared::util::itime::ITimestamp { second: s, nanosecond: n }))
    } else {
        Err(err!("stub"))
    }
}

//@harness c16_fmt_timestamp_print
//@target fmt::strtime::format::Formatter::fmt_timestamp + Extension::write_int + fmt::util::Decimal::new on 12-digit values (%s) (src/fmt/strtime/format.rs, src/fmt/util.rs)
//@prop C16
//@tier thorough
//@timeout 2400
//@doc glue + printing, callee BrokenDownTime::to_timestamp replaced by a nondeterministic stub (any Timestamp second in -377705023201..=253402207200, or Err; its value is c16_timestamp_value): %s is Err exactly when to_timestamp is, otherwise it prints floor(instant) = as_second() - [subsec < 0] as a plain decimal: '-' for negative values, no padding, no leading zeros, for EVERY second in the Timestamp range
#[kani::proof]
#[kani::stub(BrokenDownTime::to_timestamp, stub_to_timestamp)]
#[kani::unwind(15)]
#[kani::solver(kissat)]
fn c16_fmt_timestamp_print() {
    let tm = BrokenDownTime::default();
    let mut w = Buf::new();
    unsafe { STUB_SECOND = i64::MIN; }
    let r = { let mut f = Formatter { fmt: b"", tm: &tm, wtr: &mut w }; f.fmt_timestamp(NOEXT) };
    let s = unsafe { STUB_SECOND };
    assert!(r.is_ok() == (s != i64::MIN));
    if r.is_ok() { assert!(is_plain_decimal(&w, s)); }
}

// ---- %f / %.f
/// value of the k (<= 9) ASCII digits at b[from..]; 2^63 if one of them is not a digit
fn numf(b: &[u8; 24], from: usize, k: usize) -> u64 {
    let mut v: u64 = 0;
    let mut i = 0;
    while i < 9 {
        if i < k {
            let c = b[from + i];
            if c < b'0' || c > b'9' { return 1 << 63; }
            v = v * 10 + (c - b'0') as u64;
        }
        i += 1;
    }
    v
}
/// p * 10^(9-k), constant multipliers
fn scale(p: u64, k: usize) -> u64 {
    match k { 1 => p * 100_000_000, 2 => p * 10_000_000, 3 => p * 1_000_000, 4 => p * 100_000, 5 => p * 10_000, 6 => p * 1_000, 7 => p * 100, 8 => p * 10, _ => p }
}
/// b[from..from+k] are the first k digits of the 9-digit zero padded nanosecond count: the k-digit number P with P*10^(9-k) <= ns < (P+1)*10^(9-k) (truncation)
fn is_frac_prefix(w: &Buf, from: usize, k: usize, ns: u64) -> bool {
    if w.n != from + k || k < 1 || k > 9 { return false; }
    let p = numf(&w.b, from, k);
    p < (1 << 62) && scale(p, k) <= ns && ns < scale(p + 1, k)
}
/// b[from..] is the 9-digit form with trailing zeros removed (ns != 0): k digits P, the last one not '0', P*10^(9-k) == ns
fn is_frac_trimmed(w: &Buf, from: usize, ns: u64) -> bool {
    if w.n <= from || w.n > from + 9 { return false; }
    let k = w.n - from;
    let p = numf(&w.b, from, k);
    w.b[w.n - 1] != b'0' && p < (1 << 62) && scale(p, k) == ns
}

//@harness c16_fmt_fractional_auto
//@target fmt::strtime::format::Formatter::{fmt_fractional,fmt_dot_fractional} + Extension::write_fractional_seconds + fmt::util::Fractional::new (%f %.f without a precision) (src/fmt/strtime/format.rs, src/fmt/util.rs)
//@prop C16
//@tier thorough
//@timeout 2400
//@doc for every nanosecond count 0..=999_999_999 and every flag, no precision given; D = the 9-digit zero padded count.  %f prints D without its trailing zeros (so the digits P with P * 10^(9 - len) == ns and last digit non-zero), and "0" for a zero count (at least one digit); %.f prints "." followed by the same digits, and the empty string for a zero count.  Always Ok; flags change nothing
#[kani::proof]
#[kani::unwind(12)]
#[kani::solver(kissat)]
fn c16_fmt_fractional_auto() {
    let (time, _, _, _, ns) = any_time();
    let tm = BrokenDownTime::from(time);
    let ext = Extension { flag: any_flag(), width: None };
    let dot: bool = kani::any();
    let mut w = Buf::new();
    let r = {
        let mut f = Formatter { fmt: b"", tm: &tm, wtr: &mut w };
        if dot { f.fmt_dot_fractional(ext) } else { f.fmt_fractional(ext) }
    };
    assert!(r.is_ok() && !w.overflow);
    if ns == 0 {
        if dot { assert!(w.n == 0); } else { assert!(w.n == 1 && w.b[0] == b'0'); }
    } else {
        if dot { assert!(w.b[0] == b'.'); }
        assert!(is_frac_trimmed(&w, if dot { 1 } else { 0 }, ns as u64));
    }
}

//@harness c16_fmt_fractional_precision
//@target fmt::strtime::format::Formatter::{fmt_fractional,fmt_dot_fractional} + Extension::write_fractional_seconds + fmt::util::{FractionalFormatter::precision,Fractional::new} (%Nf %.Nf) (src/fmt/strtime/format.rs, src/fmt/util.rs)
//@prop C16
//@tier thorough
//@timeout 2400
//@doc for every nanosecond count 0..=999_999_999, every flag and every precision 0..=255: %f with precision 0 is Err, %.f with precision 0 prints nothing; precision p >= 1 prints exactly min(p, 9) digits, the first min(p, 9) digits of the 9-digit zero padded count: truncation, never rounding (the k-digit number P with P*10^(9-k) <= ns < (P+1)*10^(9-k)); zero counts print zeros; %.f puts "." in front
#[kani::proof]
#[kani::unwind(12)]
#[kani::solver(kissat)]
fn c16_fmt_fractional_precision() {
    let (time, _, _, _, ns) = any_time();
    let tm = BrokenDownTime::from(time);
    let p: u8 = kani::any();
    let ext = Extension { flag: any_flag(), width: Some(p) };
    let dot: bool = kani::any();
    let mut w = Buf::new();
    let r = {
        let mut f = Formatter { fmt: b"", tm: &tm, wtr: &mut w };
        if dot { f.fmt_dot_fractional(ext) } else { f.fmt_fractional(ext) }
    };
    assert!(!w.overflow);
    if p == 0 {
        if dot { assert!(r.is_ok() && w.n == 0); } else { assert!(r.is_err()); }
    } else {
        assert!(r.is_ok());
        if dot { assert!(w.b[0] == b'.'); }
        let k = if p > 9 { 9 } else { p as usize };
        assert!(is_frac_prefix(&w, if dot { 1 } else { 0 }, k, ns as u64));
    }
}

//@harness c16_fmt_flags_width
//@target fmt::strtime::format::Extension::write_int + fmt::util::{DecimalFormatter,Decimal::new} through Formatter::fmt_year (%Y with every flag and width) (src/fmt/strtime/format.rs, src/fmt/util.rs)
//@prop C16
//@tier quick
//@timeout 600
//@doc the flag/width extensions on the representative numeric specifier %Y (default: zero padded to 4), for every year -9999..=9999, every flag and every width (absent, 0..=255): the text is '-' for negative years, then padding, then the digits of |year| without leading zeros; the pad byte is ' ' for `_`, '0' for `0`, the default '0' otherwise (`^` and `#` change nothing); the digit count is padded to the explicit width if present, else 4, and `-` suppresses all padding even when a width is given; widths above 19 act as 19 (Decimal's capacity; the documentation promises any width below 256).  Note the sign is written BEFORE the padding also for space padding ("%_6Y" of year -24 is "-    24")
#[kani::proof]
#[kani::unwind(26)]
fn c16_fmt_flags_width() {
    let y: i16 = kani::any();
    kani::assume(-9999 <= y && y <= 9999);
    let tm = BrokenDownTime { year: Some(t::Year::new_unchecked(y)), ..BrokenDownTime::default() };
    let flag = any_flag();
    let width: Option<u8> = kani::any();
    let ext = Extension { flag, width };
    let mut w = Buf::new();
    let r = { let mut f = Formatter { fmt: b"", tm: &tm, wtr: &mut w }; f.fmt_year(ext) };
    assert!(r.is_ok());
    let pad = match flag { Some(Flag::PadSpace) => b' ', _ => b'0' };
    let wd0 = match flag { Some(Flag::NoPad) => 0, _ => match width { Some(x) => if x > 19 { 19 } else { x as usize }, None => 4 } };
    assert!(is_int(&w, y as i64, pad, wd0));
}

fn dec3(b: &[u8], at: usize, k: usize) -> i64 {
    let mut v = 0i64;
    let mut i = 0;
    while i < k { v = v * 10 + (b[at + i] - b'0') as i64; i += 1; }
    v
}

//@harness c16_fmt_extension_syntax
//@target fmt::strtime::format::Formatter::parse_extension = Extension::{parse_flag,parse_width} + util::parse::i64 (the text between '%' and the directive) (src/fmt/strtime/mod.rs)
//@prop C16
//@tier quick
//@timeout 600
//@bounded format text of 1..=6 bytes after the '%' (one flag byte, up to 4 width digits, the directive)
//@doc precondition: at least one byte after '%' (format() checks it).  The first byte selects the flag (_ 0 - ^ #, else none and nothing is consumed); the following maximal digit run is the width in decimal (Err if it exceeds 255); at least one byte (the directive) must remain, else Err; on Ok the unread rest starts at the directive.  No panic
#[kani::proof]
#[kani::unwind(9)]
fn c16_fmt_extension_syntax() {
    let bytes: [u8; 6] = kani::any();
    let len: usize = kani::any();
    kani::assume(1 <= len && len <= 6);
    let fmt = &bytes[..len];
    let tm = BrokenDownTime::default();
    let mut w = Buf::new();
    let mut f = Formatter { fmt, tm: &tm, wtr: &mut w };
    let r = f.parse_extension();
    let flag = match fmt[0] { b'_' => 1, b'0' => 2, b'-' => 3, b'^' => 4, b'#' => 5, _ => 0 };
    let at = if flag != 0 { 1 } else { 0 };
    let mut k = 0;
    while at + k < len && fmt[at + k].is_ascii_digit() { k += 1; }
    let value = dec3(fmt, at, k);
    let ok = at < len && at + k < len && value <= 255;
    match r {
        Ok(ext) => {
            assert!(ok);
            let got = match ext.flag { None => 0, Some(Flag::PadSpace) => 1, Some(Flag::PadZero) => 2, Some(Flag::NoPad) => 3, Some(Flag::Uppercase) => 4, Some(Flag::Swapcase) => 5 };
            assert!(got == flag);
            assert!(ext.width == if k == 0 { None } else { Some(value as u8) });
            assert!(f.fmt.len() == len - at - k);
        }
        Err(_) => assert!(!ok),
    }
}

macro_rules! both {
    ($tm:expr, $w:expr, $v:expr, $lit:expr, $m:ident) => {{
        let a = { let mut f = Formatter { fmt: $lit, tm: $tm, wtr: $w }; f.format().is_ok() };
        let b = { let mut f = Formatter { fmt: b"", tm: $tm, wtr: $v }; f.$m(NOEXT).is_ok() };
        (a, b)
    }};
}
fn same_text(a: bool, b: bool, w: &Buf, v: &Buf) {
    assert!(a && b && w.n == v.n && !w.overflow && w.n >= 1);
    let i: usize = kani::any();
    kani::assume(i < w.n);
    assert!(w.b[i] == v.b[i]);
}

//@harness c16_fmt_dispatch_time
//@target fmt::strtime::format::Formatter::format (the directive table: H k I l M S) (src/fmt/strtime/format.rs)
//@prop C16
//@tier quick
//@timeout 900
//@doc for every civil time and each of the directives H k I l M S: formatting the 2-byte format "%X" through the real `format()` loop is Ok and writes exactly the bytes that the fmt_* method specified for X in c16_fmt_clock_fields writes, so the table maps every letter to its own method; a lone "%" is an Err, not a panic
#[kani::proof]
#[kani::unwind(26)]
fn c16_fmt_dispatch_time() {
    let (time, _, _, _, _) = any_time();
    let tm = BrokenDownTime::from(time);
    let which: u8 = kani::any();
    kani::assume(which < 7);
    let mut w = Buf::new();
    let mut v = Buf::new();
    let (a, b) = match which {
        0 => both!(&tm, &mut w, &mut v, b"%H", fmt_hour24_zero), 1 => both!(&tm, &mut w, &mut v, b"%k", fmt_hour24_space),
        2 => both!(&tm, &mut w, &mut v, b"%I", fmt_hour12_zero), 3 => both!(&tm, &mut w, &mut v, b"%l", fmt_hour12_space),
        4 => both!(&tm, &mut w, &mut v, b"%M", fmt_minute), 5 => both!(&tm, &mut w, &mut v, b"%S", fmt_second),
        _ => { let mut f = Formatter { fmt: b"%", tm: &tm, wtr: &mut w }; assert!(f.format().is_err()); return; }
    };
    same_text(a, b, &w, &v);
}

//@harness c16_fmt_dispatch_date
//@target fmt::strtime::format::Formatter::format (the directive table: Y C y m d e j u w G g V) (src/fmt/strtime/format.rs)
//@prop C16
//@tier thorough
//@timeout 2400
//@doc for every date of the years 1970..=2067 (so that %y and %g are defined) and each of the directives Y C y m d e j u w G g V: formatting "%X" through the real `format()` loop is Ok and writes exactly the bytes of the fmt_* method specified for X (c16_fmt_date_fields, c16_numeric_calendar_facts, c16_fmt_iso_week_print); `Date::iso_week_date` and the day count are nondeterministic stubs here (the same value is seen by both sides)
#[kani::proof]
#[kani::stub(IDate::to_epoch_day, memo_to_epoch_day)]
#[kani::stub(Date::iso_week_date, stub_iso_week_date)]
#[kani::unwind(26)]
fn c16_fmt_dispatch_date() {
    let dt = any_date();
    kani::assume(1970 <= dt.year() && dt.year() <= 2067);
    let gy: i16 = kani::any(); kani::assume(1969 <= gy && gy <= 2068);
    let gw: i8 = kani::any(); kani::assume(1 <= gw && gw <= 52);
    unsafe { ISO_REC = (true, gy, gw); }
    let tm = BrokenDownTime::from(dt);
    let which: u8 = kani::any();
    kani::assume(which < 12);
    let mut w = Buf::new();
    let mut v = Buf::new();
    let (a, b) = match which {
        0 => both!(&tm, &mut w, &mut v, b"%Y", fmt_year), 1 => both!(&tm, &mut w, &mut v, b"%C", fmt_century), 2 => both!(&tm, &mut w, &mut v, b"%y", fmt_year2),
        3 => both!(&tm, &mut w, &mut v, b"%m", fmt_month), 4 => both!(&tm, &mut w, &mut v, b"%d", fmt_day_zero), 5 => both!(&tm, &mut w, &mut v, b"%e", fmt_day_space),
        6 => both!(&tm, &mut w, &mut v, b"%j", fmt_day_of_year), 7 => both!(&tm, &mut w, &mut v, b"%u", fmt_weekday_mon), 8 => both!(&tm, &mut w, &mut v, b"%w", fmt_weekday_sun),
        9 => both!(&tm, &mut w, &mut v, b"%G", fmt_iso_week_year), 10 => both!(&tm, &mut w, &mut v, b"%g", fmt_iso_week_year2),
        _ => both!(&tm, &mut w, &mut v, b"%V", fmt_week_iso),
    };
    same_text(a, b, &w, &v);
}
/// nondeterministic stand-in for `Date::iso_week_date` (its value is c16_iso_week_date): some ISO week date, the same for
/// every call of one run, recorded together with the date it was asked about
static mut ISO_REC: (bool, i16, i8) = (false, 0, 0);
static mut ISO_ARG: (i16, i8, i8) = (0, 0, 0);
fn stub_iso_week_date(d: Date) -> crate::civil::ISOWeekDate {
    unsafe {
        if !ISO_REC.0 {
            let y: i16 = kani::any(); kani::assume(-9999 <= y && y <= 9999);
            let w: i8 = kani::any(); kani::assume(1 <= w && w <= 52);
            ISO_REC = (true, y, w);
        }
        ISO_ARG = (d.year(), d.month(), d.day());
        crate::civil::ISOWeekDate::new_ranged(t::ISOYear::new_unchecked(ISO_REC.1), t::ISOWeek::new_unchecked(ISO_REC.2), Weekday::Monday).unwrap()
    }
}

//@harness c16_fmt_iso_week_print
//@target fmt::strtime::format::Formatter::{fmt_iso_week_year,fmt_iso_week_year2,fmt_week_iso} (%G %g %V: glue and printing) (src/fmt/strtime/format.rs)
//@prop C16
//@tier quick
//@timeout 900
//@doc (a) with the ISO fields present in the broken-down time (every ISO year -9999..=9999, week 1..=53): %G prints the year like %Y ('-' for negative years, then 4 zero padded digits), %V the week as 2 digits, %g is Ok exactly for ISO years 1969..=2068 and prints year mod 100 as 2 digits.  (b) for a broken-down time made from a Date (every date): the three methods ask `Date::iso_week_date` about exactly that date and print its year / week the same way (callee replaced by a recording nondeterministic stub; its value -- the ISO 8601 year and week of the date by the Thursday rule -- is c16_iso_week_date)
#[kani::proof]
#[kani::stub(IDate::to_epoch_day, memo_to_epoch_day)]
#[kani::stub(Date::iso_week_date, stub_iso_week_date)]
#[kani::unwind(26)]
fn c16_fmt_iso_week_print() {
    let from_date: bool = kani::any();
    let dt = any_date();
    let gy: i16 = kani::any(); kani::assume(-9999 <= gy && gy <= 9999);
    let gw: i8 = kani::any(); kani::assume(1 <= gw && gw <= 53);
    let tm = if from_date { BrokenDownTime::from(dt) } else {
        BrokenDownTime { iso_week_year: Some(t::ISOYear::new_unchecked(gy)), iso_week: Some(t::ISOWeek::new_unchecked(gw)), ..BrokenDownTime::default() }
    };
    let which: u8 = kani::any();
    kani::assume(which < 3);
    let mut w = Buf::new();
    let r = {
        let mut f = Formatter { fmt: b"", tm: &tm, wtr: &mut w };
        match which { 0 => f.fmt_iso_week_year(NOEXT), 1 => f.fmt_iso_week_year2(NOEXT), _ => f.fmt_week_iso(NOEXT) }
    };
    let (y, wk) = if from_date {
        let (_, ry, rw) = unsafe { ISO_REC };
        assert!(unsafe { ISO_ARG } == (dt.year(), dt.month(), dt.day()));
        (ry as i64, rw as i64)
    } else { (gy as i64, gw as i64) };
    match which {
        0 => assert!(r.is_ok() && is_int(&w, y, b'0', 4)),
        1 => {
            assert!(r.is_ok() == (1969 <= y && y <= 2068));
            if r.is_ok() { assert!(is_int(&w, y % 100, b'0', 2) && w.n == 2); }
        }
        _ => assert!(r.is_ok() && is_int(&w, wk, b'0', 2) && w.n == 2),
    }
}
