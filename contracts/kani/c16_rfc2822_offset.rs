//@inject src/fmt/rfc2822.rs
//! C16 / C17 (RFC 2822): the numeric zone `+hhmm` / `-hhmm` of the RFC 2822 parser.
use super::*;

//@harness c16_rfc2822_numeric_offset
//@target fmt::rfc2822::DateTimeParser::parse_offset, numeric form (src/fmt/rfc2822.rs)
//@prop C16 C17
//@tier quick
//@mode rel
//@timeout 900
//@doc for every input of 0..=6 bytes that starts with '+' or '-': total (Ok or Err, no panic); Ok exactly when four ASCII digits hhmm follow with hh <= 25 and mm <= 59; then exactly 5 bytes are consumed and the offset is sign * (hh*3600 + mm*60) seconds -- the sign applies to the minutes as well
#[kani::proof]
#[kani::unwind(8)]
fn c16_rfc2822_numeric_offset() {
    let buf: [u8; 6] = kani::any();
    let len: usize = kani::any();
    kani::assume(len <= 6 && len >= 1);
    kani::assume(buf[0] == b'+' || buf[0] == b'-');
    let input = &buf[..len];
    let p = DateTimeParser::new();
    let r = p.parse_offset(input);
    let dig = |i: usize| i < len && b'0' <= buf[i] && buf[i] <= b'9';
    let shape = len >= 5 && dig(1) && dig(2) && dig(3) && dig(4);
    let hh = ((buf[1].wrapping_sub(b'0')) as i32) * 10 + (buf[2].wrapping_sub(b'0')) as i32;
    let mm = ((buf[3].wrapping_sub(b'0')) as i32) * 10 + (buf[4].wrapping_sub(b'0')) as i32;
    let ok = shape && hh <= 25 && mm <= 59;
    assert!(r.is_ok() == ok);
    if let Ok(Parsed { value, input: rest }) = r {
        assert!(rest.len() == len - 5);
        let sign = if buf[0] == b'-' { -1 } else { 1 };
        assert!(value.seconds() == sign * (hh * 3600 + mm * 60));
    }
}
