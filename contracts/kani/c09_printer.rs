//@inject src/fmt/temporal/printer.rs
//! C09: the offset part of the RFC 3339 / RFC 9557 printer, on the real code, full offset domain.
use super::*;

pub struct Buf { pub b: [u8; 16], pub n: usize, pub overflow: bool }
impl Buf { pub fn new() -> Buf { Buf { b: [0; 16], n: 0, overflow: false } } }
impl crate::fmt::Write for Buf {
    fn write_str(&mut self, s: &str) -> Result<(), Error> {
        let bytes = s.as_bytes();
        let mut i = 0;
        while i < bytes.len() {
            if self.n >= 16 { self.overflow = true; return Ok(()); }
            self.b[self.n] = bytes[i];
            self.n += 1;
            i += 1;
        }
        Ok(())
    }
}
fn d2(b: &[u8; 16], at: usize) -> i32 {
    let (x, y) = (b[at], b[at + 1]);
    if x < b'0' || x > b'9' || y < b'0' || y > b'9' { return -1; }
    ((x - b'0') as i32) * 10 + (y - b'0') as i32
}

//@harness c09_print_offset_rounded
//@target fmt::temporal::printer::DateTimePrinter::print_offset_rounded (src/fmt/temporal/printer.rs)
//@prop C09
//@tier quick
//@timeout 600
//@doc for every offset in -93599..=93599: the text is sign HH ':' MM (6 bytes), MM <= 59, and HH*60+MM is |offset| rounded to the nearest minute (half away from zero); the sign is '-' exactly for negative offsets
#[kani::proof]
#[kani::unwind(18)]
fn c09_print_offset_rounded() {
    let s: i32 = kani::any();
    kani::assume(-93599 <= s && s <= 93599);
    let off = Offset::from_seconds_unchecked(s);
    let mut w = Buf::new();
    let r = DateTimePrinter::new().print_offset_rounded(&off, &mut w);
    assert!(r.is_ok() && !w.overflow && w.n == 6);
    let a = if s < 0 { -s } else { s };
    let total_min = (a + 30) / 60;
    assert!(w.b[0] == if s < 0 { b'-' } else { b'+' });
    assert!(w.b[3] == b':');
    let (hh, mm) = (d2(&w.b, 1), d2(&w.b, 4));
    assert!(0 <= mm && mm <= 59);
    assert!(hh == total_min / 60 && mm == total_min % 60);
}

//@harness c09_print_offset_full_precision
//@target fmt::temporal::printer::DateTimePrinter::print_offset_full_precision (src/fmt/temporal/printer.rs)
//@prop C09
//@tier quick
//@timeout 600
//@doc for every offset: sign HH ':' MM and ':' SS iff seconds != 0, denoting exactly |offset|
#[kani::proof]
#[kani::unwind(18)]
fn c09_print_offset_full_precision() {
    let s: i32 = kani::any();
    kani::assume(-93599 <= s && s <= 93599);
    let off = Offset::from_seconds_unchecked(s);
    let mut w = Buf::new();
    let r = DateTimePrinter::new().print_offset_full_precision(&off, &mut w);
    assert!(r.is_ok() && !w.overflow);
    let a = if s < 0 { -s } else { s };
    assert!(w.b[0] == if s < 0 { b'-' } else { b'+' });
    assert!(d2(&w.b, 1) == a / 3600 && w.b[3] == b':' && d2(&w.b, 4) == (a / 60) % 60);
    if a % 60 != 0 { assert!(w.n == 9 && w.b[6] == b':' && d2(&w.b, 7) == a % 60); } else { assert!(w.n == 6); }
}
