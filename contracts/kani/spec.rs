//! Reference semantics used by the Kani harnesses, written from the property statements
//! (proleptic Gregorian calendar etc.), not from jiff's code.  The Verus unit `kspec`
//! proves these executable functions equal the `spec fn`s of contracts/verus/lib/greg.vrs,
//! so both tools use one specification.
use crate::civil::{Date, Weekday};
use crate::shared::util::itime::IDate;
use crate::util::t;

pub const E_MIN: i32 = -4371587;
pub const E_MAX: i32 = 2932896;

pub fn is_leap(y: i64) -> bool {
    y % 4 == 0 && (y % 100 != 0 || y % 400 == 0)
}
pub fn dim(y: i64, m: i64) -> i64 {
    if m == 2 {
        if is_leap(y) { 29 } else { 28 }
    } else if m == 4 || m == 6 || m == 9 || m == 11 {
        30
    } else {
        31
    }
}
pub fn diy(y: i64) -> i64 {
    if is_leap(y) { 366 } else { 365 }
}
pub fn valid(y: i64, m: i64, d: i64) -> bool {
    -9999 <= y && y <= 9999 && 1 <= m && m <= 12 && 1 <= d && d <= dim(y, m)
}
pub fn next(y: i64, m: i64, d: i64) -> (i64, i64, i64) {
    if d == dim(y, m) {
        if m == 12 { (y + 1, 1, 1) } else { (y, m + 1, 1) }
    } else {
        (y, m, d + 1)
    }
}
pub fn prev(y: i64, m: i64, d: i64) -> (i64, i64, i64) {
    if d == 1 {
        if m == 1 { (y - 1, 12, 31) } else { (y, m - 1, dim(y, m - 1)) }
    } else {
        (y, m, d - 1)
    }
}
/// days before the first of month m (1-based) in year y
pub fn days_before_month(y: i64, m: i64) -> i64 {
    let l = if is_leap(y) { 1 } else { 0 };
    match m {
        1 => 0,
        2 => 31,
        3 => 59 + l,
        4 => 90 + l,
        5 => 120 + l,
        6 => 151 + l,
        7 => 181 + l,
        8 => 212 + l,
        9 => 243 + l,
        10 => 273 + l,
        11 => 304 + l,
        _ => 334 + l,
    }
}
pub fn doy(y: i64, m: i64, d: i64) -> i64 {
    days_before_month(y, m) + d
}
/// ISO weekday (1 = Monday .. 7 = Sunday) of day number e; day 0 is a Thursday.
pub fn wd(e: i64) -> i64 {
    (e + 3).rem_euclid(7) + 1
}

// ---------------------------------------------------------------- symbolic values
pub fn any_ymd() -> (i16, i8, i8) {
    let y: i16 = kani::any();
    let m: i8 = kani::any();
    let d: i8 = kani::any();
    kani::assume(valid(y as i64, m as i64, d as i64));
    (y, m, d)
}
pub fn mk_date(y: i16, m: i8, d: i8) -> Date {
    Date::new_ranged_unchecked(
        t::Year::new_unchecked(y),
        t::Month::new_unchecked(m),
        t::Day::new_unchecked(d),
    )
}
pub fn any_date() -> Date {
    let (y, m, d) = any_ymd();
    mk_date(y, m, d)
}
pub fn ymd(d: Date) -> (i64, i64, i64) {
    (d.year() as i64, d.month() as i64, d.day() as i64)
}
pub fn any_weekday() -> Weekday {
    let w: i8 = kani::any();
    kani::assume(1 <= w && w <= 7);
    match w {
        1 => Weekday::Monday,
        2 => Weekday::Tuesday,
        3 => Weekday::Wednesday,
        4 => Weekday::Thursday,
        5 => Weekday::Friday,
        6 => Weekday::Saturday,
        _ => Weekday::Sunday,
    }
}
pub fn wnum(w: Weekday) -> i64 {
    match w {
        Weekday::Monday => 1,
        Weekday::Tuesday => 2,
        Weekday::Wednesday => 3,
        Weekday::Thursday => 4,
        Weekday::Friday => 5,
        Weekday::Saturday => 6,
        Weekday::Sunday => 7,
    }
}
