//! T3b: axiomatised memo stubs for the two Neri-Schneider conversions.
//!
//! `IDate::to_epoch_day` / `IEpochDay::to_date` are proved by Verus (unit `itime`) to compute
//! the Gregorian day count `rd`.  Kani callers do not re-verify those bodies: the functions are
//! replaced by a memoised nondeterministic function E constrained by exactly the facts Verus
//! proved about rd (lib/greg.vrs: lemma_rd_inj, lemma_rd_mono, lemma_rd_succ, lemma_rd_epoch,
//! lemma_rd_bounds, lemma_doy_rd, lemma_rd_year) -- Ackermann's reduction plus the contract.
use super::spec::*;
use crate::shared::util::itime::{IDate, IEpochDay};

pub const MEMO_N: usize = 4;
/// which families of facts memo_link assumes (a harness enables only what its argument needs)
pub const F_ORDER: u8 = 1;
pub const F_SUCC: u8 = 2;
pub const F_YEAR: u8 = 4;
pub static mut MEMO_FACTS: u8 = F_SUCC;
pub fn memo_facts(f: u8) {
    unsafe { MEMO_FACTS = f; }
}
static mut MEMO_D: [IDate; MEMO_N] = [IDate { year: 0, month: 0, day: 0 }; MEMO_N];
static mut MEMO_E: [i32; MEMO_N] = [0; MEMO_N];
static mut MEMO_LEN: usize = 0;

fn idate_valid(d: &IDate) -> bool {
    valid(d.year as i64, d.month as i64, d.day as i64)
}
fn is_next(a: &IDate, b: &IDate) -> bool {
    let (y, m, d) = next(a.year as i64, a.month as i64, a.day as i64);
    b.year as i64 == y && b.month as i64 == m && b.day as i64 == d
}

unsafe fn memo_link(d: IDate, e: i32) {
    // range + anchors (lemma_rd_bounds, lemma_rd_epoch)
    kani::assume(E_MIN <= e && e <= E_MAX);
    kani::assume((d == IDate { year: 1970, month: 1, day: 1 }) == (e == 0));
    kani::assume((d == IDate { year: -9999, month: 1, day: 1 }) == (e == E_MIN));
    kani::assume((d == IDate { year: 9999, month: 12, day: 31 }) == (e == E_MAX));
    // position within its own year (lemma_doy_rd, lemma_year_of_rd): e - E(y,1,1) = doy - 1,
    // stated against other entries only; the year anchor itself is linked when it is queried.
    let mut i = 0;
    while i < MEMO_N {
        if i < MEMO_LEN {
            let d1 = MEMO_D[i];
            let e1 = MEMO_E[i];
            // functional + injective (lemma_rd_inj)
            kani::assume((d1 == d) == (e1 == e));
            // order isomorphism (lemma_rd_mono; derived Ord on IDate is (year, month, day) lexicographic)
            if MEMO_FACTS & F_ORDER != 0 {
                kani::assume((d1 < d) == (e1 < e));
            }
            // successor (lemma_rd_succ)
            if MEMO_FACTS & F_SUCC != 0 {
                if is_next(&d1, &d) {
                    kani::assume(e == e1 + 1);
                }
                if is_next(&d, &d1) {
                    kani::assume(e1 == e + 1);
                }
            }
            // same year: difference of day numbers is difference of ordinal days (lemma_doy_rd)
            if MEMO_FACTS & F_YEAR != 0 && d1.year == d.year {
                let o1 = doy(d1.year as i64, d1.month as i64, d1.day as i64);
                let o = doy(d.year as i64, d.month as i64, d.day as i64);
                kani::assume((e as i64) - (e1 as i64) == o - o1);
            }
            // adjacent years: Jan 1 to Jan 1 is the year length (lemma_rd_year), combined with lemma_doy_rd
            if MEMO_FACTS & F_YEAR != 0 && d1.year as i64 + 1 == d.year as i64 {
                let o1 = doy(d1.year as i64, d1.month as i64, d1.day as i64);
                let o = doy(d.year as i64, d.month as i64, d.day as i64);
                kani::assume((e as i64) - (e1 as i64) == diy(d1.year as i64) - o1 + o);
            }
            if MEMO_FACTS & F_YEAR != 0 && d.year as i64 + 1 == d1.year as i64 {
                let o1 = doy(d1.year as i64, d1.month as i64, d1.day as i64);
                let o = doy(d.year as i64, d.month as i64, d.day as i64);
                kani::assume((e1 as i64) - (e as i64) == diy(d.year as i64) - o + o1);
            }
        }
        i += 1;
    }
    assert!(MEMO_LEN < MEMO_N, "memo table overflow: raise MEMO_N");
    MEMO_D[MEMO_LEN] = d;
    MEMO_E[MEMO_LEN] = e;
    MEMO_LEN += 1;
}

/// E: date -> day number (stub for IDate::to_epoch_day)
pub fn memo_to_epoch_day(d: &IDate) -> IEpochDay {
    unsafe {
        let mut i = 0;
        while i < MEMO_N {
            if i < MEMO_LEN && MEMO_D[i] == *d {
                return IEpochDay { epoch_day: MEMO_E[i] };
            }
            i += 1;
        }
        // precondition of the verified contract
        assert!(idate_valid(d), "to_epoch_day called on an invalid date");
        let e: i32 = kani::any();
        memo_link(*d, e);
        IEpochDay { epoch_day: e }
    }
}

/// D: day number -> date (stub for IEpochDay::to_date)
pub fn memo_to_date(e: &IEpochDay) -> IDate {
    unsafe {
        let mut i = 0;
        while i < MEMO_N {
            if i < MEMO_LEN && MEMO_E[i] == e.epoch_day {
                return MEMO_D[i];
            }
            i += 1;
        }
        assert!(E_MIN <= e.epoch_day && e.epoch_day <= E_MAX, "to_date called outside the epoch-day range");
        let d = IDate { year: kani::any(), month: kani::any(), day: kani::any() };
        kani::assume(idate_valid(&d));
        memo_link(d, e.epoch_day);
        d
    }
}

/// The day number of a civil date according to the same E (for stating postconditions).
pub fn e_of(y: i64, m: i64, d: i64) -> i64 {
    memo_to_epoch_day(&IDate { year: y as i16, month: m as i8, day: d as i8 }).epoch_day as i64
}
