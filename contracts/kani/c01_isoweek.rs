//@inject src/civil/date.rs
//! C01 (ISO week dates): the single out-of-range input of unit `isoweek`.  `Date::iso_week_date` calls
//! `iso_week_start_from_year(year + 1)`, i.e. with 10000 for every date of year 9999, which builds the civil date
//! 10000-01-04 -- outside `t::Year`.  The Verus unit states the opaque contracts of `Date::new_ranged`,
//! `Date::weekday` and `Date::to_unix_epoch_day` on "supported dates plus 10000-01-04"; this harness runs the real
//! functions (no stub) on exactly that input.
use super::*;

//@harness c01_iso_week_start_year_10000
//@target civil::date::iso_week_start_from_year(10000): Date::new_ranged, Date::weekday, Date::to_unix_epoch_day on 10000-01-04 (src/civil/date.rs)
//@prop C01 C05
//@tier quick
//@mode rel
//@doc on the one date outside the supported range that the ISO week code constructs (10000-01-04): new_ranged is Ok, the weekday is Tuesday, the day number is 2932900 and the ISO year 10000 starts on day 2932899 (a Monday), without panic or i32 overflow
#[kani::proof]
#[kani::unwind(6)]
fn c01_iso_week_start_year_10000() {
    let y = t::ISOYear::new_unchecked(10000);
    let d = Date::new_ranged(y.rinto(), C(1).rinto(), C(4).rinto());
    assert!(d.is_ok());
    let d = d.unwrap();
    assert!(d.weekday() == Weekday::Tuesday);
    assert!(d.to_unix_epoch_day().get() == 2932900);
    assert!(iso_week_start_from_year(y).get() == 2932899);
}

//@harness c01_iso_week_start_all_years
//@target civil::date::iso_week_start_from_year (src/civil/date.rs)
//@prop C01
//@tier quick
//@mode rel
//@timeout 900
//@doc for every ISO year -9999..=9999: the result is the Monday on or before January 4 (E(y,1,4) - ((E+3) mod 7)), E the Verus-proved day count (axiomatised memo stub)
#[kani::proof]
#[kani::stub(crate::shared::util::itime::IDate::to_epoch_day, crate::verif_kani::memo::memo_to_epoch_day)]
#[kani::unwind(6)]
fn c01_iso_week_start_all_years() {
    let yv: i16 = kani::any();
    kani::assume(-9999 <= yv && yv <= 9999);
    let y = t::ISOYear::new_unchecked(yv);
    let e = crate::verif_kani::memo::e_of(yv as i64, 1, 4);
    let monday = e - (e + 3).rem_euclid(7);
    assert!(iso_week_start_from_year(y).get() as i64 == monday);
}
