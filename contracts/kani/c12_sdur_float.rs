//@inject src/signed_duration.rs
//! C12 (floating-point API of SignedDuration) + C05, on the real code, IEEE-754 bit-precise (CBMC).  Kani builds jiff with
//! --no-default-features, so `trunc` / `round` / `fract` are the bit-level fallbacks of src/util/libm.rs (no `%` on floats anywhere on
//! these paths); the std-feature build (same source, std's intrinsics) is covered by the bounded native group c12_sdur_float_native.
//!
//! Expectations are stated over exact integers and exact f64/f32 comparisons only:
//!   * a finite float x is the rational m * 2^e read off its bits (`parts64` / `parts32`); x * 10^9 is compared with integers in u128,
//!   * `x as i64` (Rust's cast: truncation toward zero, exact for in-range x) is the specification of "whole seconds of x",
//!   * `|x| - (trunc as f64)` is an exact subtraction for |x| < 2^53 (the definition of the fractional part, no rounding).
//! The only relational expectation is the one for from_secs_* (documented as the panicking form of try_from_secs_*).
//!
//! Measured and NOT in this group because CBMC does not finish within 20 minutes (Kani 0.68, cadical): the 1-ulp / 2-ulp accuracy of as_*_f*
//! (an f64 division plus a 128-bit shift oracle), mul_f* / div_f* == try_from_secs_f*(factor * as_secs_f*) (two copies of the same float
//! pipeline), div_duration_f64 / _f32 (sign, a / a == 1.0, correct rounding; even the f32 sign-only harness times out at 1200 s).
//! They are bounded native checks in c12_sdur_float_native.
use super::*;

const TWO63: f64 = 9223372036854775808.0; // 2^63 = (i64::MAX as f64) = -(i64::MIN as f64)
const TWO63_32: f32 = 9223372036854775808.0;

fn wf(d: SignedDuration) -> bool {
    -1_000_000_000 < d.nanos && d.nanos < 1_000_000_000 && !(d.secs > 0 && d.nanos < 0) && !(d.secs < 0 && d.nanos > 0)
}
/// a symbolic well-formed duration
fn any_sdur() -> SignedDuration {
    let s: i64 = kani::any();
    let n: i32 = kani::any();
    kani::assume(-1_000_000_000 < n && n < 1_000_000_000 && !(s > 0 && n < 0) && !(s < 0 && n > 0));
    SignedDuration::new_unchecked(s, n)
}
fn tot(d: SignedDuration) -> i128 { d.secs as i128 * 1_000_000_000 + d.nanos as i128 }

/// C12: "reporting overflow exactly when the true result is unrepresentable": x seconds is representable iff x is finite and its whole seconds
/// (truncated toward zero) fit an i64, i.e. -2^63 <= x < 2^63 (every f64/f32 at or above 2^53 / 2^24 is an integer, so nothing in between)
fn unrepresentable64(x: f64) -> bool { x != x || x == f64::INFINITY || x == f64::NEG_INFINITY || x < -TWO63 || x >= TWO63 }
fn unrepresentable32(x: f32) -> bool { x != x || x == f32::INFINITY || x == f32::NEG_INFINITY || x < -TWO63_32 || x >= TWO63_32 }

/// |x| = m * 2^-k for a finite f64 with 0 < |x| < 1  (m < 2^53, k >= 53)
fn parts64(ax: f64) -> (u128, u32) {
    let b = ax.to_bits();
    let e = ((b >> 52) & 0x7ff) as u32;
    let mant = (b & ((1u64 << 52) - 1)) as u128;
    if e == 0 { (mant, 1074) } else { (mant | (1u128 << 52), 1075 - e) }
}
/// |x| = m * 2^-k for a finite f32 with 0 < |x| < 1  (m < 2^24, k >= 24)
fn parts32(ax: f32) -> (u128, u32) {
    let b = ax.to_bits();
    let e = (b >> 23) & 0xff;
    let mant = (b & ((1u32 << 23) - 1)) as u128;
    if e == 0 { (mant, 149) } else { (mant | (1u128 << 23), 150 - e) }
}

/// the value facts of try_from_secs_f64 for a representable x (shared by the harnesses below): well-formed, the sign of x, whole seconds ==
/// trunc(x) exactly, and the sub-second count (carry into the seconds included) is the real number fract(x) * 10^9 rounded to the nearest
/// integer up to the one rounding of the f64 product: |n - fract * 10^9| <= 1/2 + 2^-24
fn check_value64(x: f64, d: SignedDuration) {
    assert!(wf(d));
    if x >= 0.0 { assert!(d.secs >= 0 && d.nanos >= 0); } else { assert!(d.secs <= 0 && d.nanos <= 0); }
    let s0 = x as i64;                               // truncation toward zero, exact (x is in range)
    let ax = if x < 0.0 { -x } else { x };
    // sub-second nanoseconds of the result relative to trunc(x), as a magnitude (0 ..= 10^9; 10^9 = carried into the seconds)
    let ds = (d.secs as i128 - s0 as i128) * if x < 0.0 { -1 } else { 1 };
    let n = ds * 1_000_000_000 + (if x < 0.0 { -(d.nanos as i128) } else { d.nanos as i128 });
    assert!(ds == 0 || (ds == 1 && d.nanos == 0));
    assert!(0 <= n && n <= 1_000_000_000);
    if ax >= 9007199254740992.0 {                    // 2^53: x is an integer
        assert!(n == 0);
    } else {
        let a0 = if s0 < 0 { -(s0 as i128) } else { s0 as i128 };
        let f = ax - (a0 as f64);                    // exact: a0 < 2^53 and ax - trunc(ax) is representable
        assert!(0.0 <= f && f < 1.0);
        if f == 0.0 {
            assert!(n == 0);
        } else {
            let (m, k) = parts64(f);                 // f = m * 2^-k, k >= 53
            if k > 100 {
                assert!(n == 0);                     // f * 10^9 < 2^-17
            } else {
                let p = m * 1_000_000_000u128;       // < 2^83;  f * 10^9 = p / 2^k
                let q = (p >> k) as i128;
                let rem = p & ((1u128 << k) - 1);
                let half = 1u128 << (k - 1);
                let slack = 1u128 << (k - 24);
                assert!((n == q && rem <= half + slack) || (n == q + 1 && rem + slack >= half));
            }
        }
    }
}
/// the same for f32; the f32 product fract * 10^9 carries a relative error of up to 2^-24 ("loss of precision!" in the documentation):
/// |n - t| <= 1/2 + t * 2^-24 for t = fract * 10^9
fn check_value32(x: f32, d: SignedDuration) {
    assert!(wf(d));
    if x >= 0.0 { assert!(d.secs >= 0 && d.nanos >= 0); } else { assert!(d.secs <= 0 && d.nanos <= 0); }
    let s0 = x as i64;
    let ax = if x < 0.0 { -x } else { x };
    let ds = (d.secs as i128 - s0 as i128) * if x < 0.0 { -1 } else { 1 };
    let n = ds * 1_000_000_000 + (if x < 0.0 { -(d.nanos as i128) } else { d.nanos as i128 });
    assert!(ds == 0 || (ds == 1 && d.nanos == 0));
    assert!(0 <= n && n <= 1_000_000_000);
    if ax >= 16777216.0 {                            // 2^24: x is an integer
        assert!(n == 0);
    } else {
        let a0 = if s0 < 0 { -(s0 as i128) } else { s0 as i128 };
        let f = ax - (a0 as f32);                    // exact
        assert!(0.0 <= f && f < 1.0);
        if f == 0.0 {
            assert!(n == 0);
        } else {
            let (m, k) = parts32(f);                 // f = m * 2^-k, k >= 24
            if k > 70 {
                assert!(n == 0);                     // f * 10^9 < 2^-16
            } else {
                let p = m * 1_000_000_000u128;       // < 2^54;  t = p / 2^k
                let nk = (n as u128) << k;           // < 2^101
                let diff = if nk >= p { nk - p } else { p - nk };
                // |n - t| <= 1/2 + t * 2^-24   <==>   2^24 * |n * 2^k - p| <= 2^(k + 23) + p
                assert!((diff << 24) <= (1u128 << (k + 23)) + p);
            }
        }
    }
}

//@harness c12_try_from_secs_f64_err_iff
//@target SignedDuration::try_from_secs_f64 (src/signed_duration.rs)
//@prop C12 C05
//@tier quick
//@mode rel
//@timeout 900
//@doc for EVERY f64 x (NaN, infinities, subnormals included): try_from_secs_f64(x) is Err exactly when x seconds is unrepresentable, i.e. x is not finite or its whole seconds do not fit an i64 (x < -2^63 or x >= 2^63); no panic.  FAILS on jiff 0.2.8 at x = 2^63 = 9223372036854775808.0: the guard is `secs > (i64::MAX as f64)` and i64::MAX as f64 is 2^63, so 2^63 passes and `as i64` saturates: Ok(9223372036854775807 s) instead of Err
#[kani::proof]
fn c12_try_from_secs_f64_err_iff() {
    let x: f64 = kani::any();
    let r = SignedDuration::try_from_secs_f64(x);
    assert!(r.is_err() == unrepresentable64(x));
}

//@harness c12_try_from_secs_f64_err_iff_but_2p63
//@target SignedDuration::try_from_secs_f64 (src/signed_duration.rs)
//@prop C12 C05
//@tier quick
//@mode rel
//@timeout 900
//@doc for every f64 x other than 2^63: try_from_secs_f64(x) is Err exactly when x is not finite, x < -2^63 or x > 2^63 (so 2^63 is the only input on which c12_try_from_secs_f64_err_iff fails); no panic
#[kani::proof]
fn c12_try_from_secs_f64_err_iff_but_2p63() {
    let x: f64 = kani::any();
    kani::assume(x != TWO63);
    let r = SignedDuration::try_from_secs_f64(x);
    assert!(r.is_err() == unrepresentable64(x));
}

//@harness c12_try_from_secs_f64_value
//@target SignedDuration::try_from_secs_f64 (src/signed_duration.rs)
//@prop C12 C05
//@tier thorough
//@mode rel
//@timeout 1200
//@doc for every representable f64 x (-2^63 <= x < 2^63, subnormals and -0.0 included): the result is Ok, well-formed (|nanos| < 10^9, seconds and nanoseconds never of opposite sign), of the sign of x, its whole seconds are trunc(x) exactly, and its sub-second part n (a carry n = 10^9 goes to the seconds) is fract(x) * 10^9 rounded to nearest: |n - fract(x) * 10^9| <= 1/2 + 2^-24 over exact rationals (2^-24 = the one rounding of the f64 product) -- full domain, bit-precise
#[kani::proof]
fn c12_try_from_secs_f64_value() {
    let x: f64 = kani::any();
    kani::assume(!unrepresentable64(x));
    let r = SignedDuration::try_from_secs_f64(x);
    assert!(r.is_ok());
    if let Ok(d) = r { check_value64(x, d); }
}

//@harness c12_try_from_secs_f32_err_iff
//@target SignedDuration::try_from_secs_f32 (src/signed_duration.rs)
//@prop C12 C05
//@tier quick
//@mode rel
//@timeout 900
//@doc for EVERY f32 x: try_from_secs_f32(x) is Err exactly when x is not finite, x < -2^63 or x >= 2^63; no panic.  FAILS on jiff 0.2.8 at x = 2^63 (same guard `secs > (i64::MAX as f32)`): Ok(9223372036854775807 s) instead of Err
#[kani::proof]
fn c12_try_from_secs_f32_err_iff() {
    let x: f32 = kani::any();
    let r = SignedDuration::try_from_secs_f32(x);
    assert!(r.is_err() == unrepresentable32(x));
}

//@harness c12_try_from_secs_f32_err_iff_but_2p63
//@target SignedDuration::try_from_secs_f32 (src/signed_duration.rs)
//@prop C12 C05
//@tier quick
//@mode rel
//@timeout 900
//@doc for every f32 x other than 2^63: Err exactly when x is not finite, x < -2^63 or x > 2^63 (2^63 is the only counterexample of c12_try_from_secs_f32_err_iff); no panic
#[kani::proof]
fn c12_try_from_secs_f32_err_iff_but_2p63() {
    let x: f32 = kani::any();
    kani::assume(x != TWO63_32);
    let r = SignedDuration::try_from_secs_f32(x);
    assert!(r.is_err() == unrepresentable32(x));
}

//@harness c12_try_from_secs_f32_value
//@target SignedDuration::try_from_secs_f32 (src/signed_duration.rs)
//@prop C12 C05
//@tier quick
//@mode rel
//@timeout 1200
//@doc for every representable f32 x (-2^63 <= x < 2^63): Ok, well-formed, of the sign of x, whole seconds == trunc(x) exactly, sub-second part n within the documented f32 precision of t = fract(x) * 10^9: |n - t| <= 1/2 + t * 2^-24 over exact rationals -- full domain, bit-precise
#[kani::proof]
fn c12_try_from_secs_f32_value() {
    let x: f32 = kani::any();
    kani::assume(!unrepresentable32(x));
    let r = SignedDuration::try_from_secs_f32(x);
    assert!(r.is_ok());
    if let Ok(d) = r { check_value32(x, d); }
}

//@harness c12_from_secs_f64_is_try
//@target SignedDuration::from_secs_f64 (src/signed_duration.rs)
//@prop C12 C05
//@tier thorough
//@mode rel
//@timeout 1800
//@doc for every representable f64 x (-2^63 <= x < 2^63): from_secs_f64(x) does not panic and returns exactly what try_from_secs_f64(x) returns ("panics exactly where try_ returns Err", the no-panic half on the full domain; the panicking half is the bounded native check c12_native_from_secs_panics_iff_err)
#[kani::proof]
fn c12_from_secs_f64_is_try() {
    let x: f64 = kani::any();
    kani::assume(!unrepresentable64(x));
    let d = SignedDuration::from_secs_f64(x);
    let t = SignedDuration::try_from_secs_f64(x);
    assert!(t.is_ok());
    if let Ok(t) = t { assert!(t.secs == d.secs && t.nanos == d.nanos); }
}

//@harness c12_from_secs_f32_is_try
//@target SignedDuration::from_secs_f32 (src/signed_duration.rs)
//@prop C12 C05
//@tier thorough
//@mode rel
//@timeout 900
//@doc for every representable f32 x (-2^63 <= x < 2^63): from_secs_f32(x) does not panic and returns exactly what try_from_secs_f32(x) returns
#[kani::proof]
fn c12_from_secs_f32_is_try() {
    let x: f32 = kani::any();
    kani::assume(!unrepresentable32(x));
    let d = SignedDuration::from_secs_f32(x);
    let t = SignedDuration::try_from_secs_f32(x);
    assert!(t.is_ok());
    if let Ok(t) = t { assert!(t.secs == d.secs && t.nanos == d.nanos); }
}

//@harness c12_as_f64_sign_and_whole_seconds
//@target SignedDuration::as_secs_f64, SignedDuration::as_millis_f64 (src/signed_duration.rs)
//@prop C12
//@tier thorough
//@mode rel
//@timeout 1200
//@doc for every well-formed duration d (all i64 seconds, |nanos| < 10^9): as_secs_f64(d) and as_millis_f64(d) are finite and have the sign of d (0.0 only for the zero duration); for a whole number of seconds with |secs| <= 2^53 (resp. 2^43) they equal secs (resp. secs * 1000) exactly -- full domain, bit-precise (the 1-ulp / 2-ulp accuracy is the bounded native check c12_native_as_float_accuracy)
#[kani::proof]
fn c12_as_f64_sign_and_whole_seconds() {
    let d = any_sdur();
    let t = tot(d);
    let millis: bool = kani::any();
    let r = if millis { d.as_millis_f64() } else { d.as_secs_f64() };
    assert!(r == r && r != f64::INFINITY && r != f64::NEG_INFINITY);
    assert!((t > 0) == (r > 0.0) && (t < 0) == (r < 0.0));
    if d.nanos == 0 {
        if !millis && -9007199254740992 <= d.secs && d.secs <= 9007199254740992 { assert!(r as i64 == d.secs && (r as i64) as f64 == r); }
        if millis && -8796093022208 <= d.secs && d.secs <= 8796093022208 { assert!(r as i64 == d.secs * 1000 && (r as i64) as f64 == r); }
    }
}

//@harness c12_as_f32_sign_and_whole_seconds
//@target SignedDuration::as_secs_f32, SignedDuration::as_millis_f32 (src/signed_duration.rs)
//@prop C12
//@tier quick
//@mode rel
//@timeout 1200
//@doc for every well-formed duration d: as_secs_f32(d) and as_millis_f32(d) are finite and have the sign of d; for a whole number of seconds with |secs| <= 2^24 (resp. 16000) they equal secs (resp. secs * 1000) exactly -- full domain, bit-precise
#[kani::proof]
fn c12_as_f32_sign_and_whole_seconds() {
    let d = any_sdur();
    let t = tot(d);
    let millis: bool = kani::any();
    let r = if millis { d.as_millis_f32() } else { d.as_secs_f32() };
    assert!(r == r && r != f32::INFINITY && r != f32::NEG_INFINITY);
    assert!((t > 0) == (r > 0.0) && (t < 0) == (r < 0.0));
    if d.nanos == 0 {
        if !millis && -16777216 <= d.secs && d.secs <= 16777216 { assert!(r as i64 == d.secs && (r as i64) as f32 == r); }
        if millis && -16000 <= d.secs && d.secs <= 16000 { assert!(r as i64 == d.secs * 1000 && (r as i64) as f32 == r); }
    }
}
