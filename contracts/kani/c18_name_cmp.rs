//@inject src/util/utf8.rs
//! C18 ("Lookup by name is ASCII case-insensitive and returns the canonical spelling"): the comparator every time zone database
//! back-end uses to sort and binary-search zone names.
use super::*;

fn lower(b: u8) -> u8 { if b'A' <= b && b <= b'Z' { b + 32 } else { b } }
/// reference: lexicographic comparison of the ASCII-lowercased byte strings, written out position by position
fn ref_cmp(a: &[u8], b: &[u8]) -> Ordering {
    let mut i = 0;
    while i < 4 {
        if i >= a.len() && i >= b.len() { return Ordering::Equal; }
        if i >= a.len() { return Ordering::Less; }
        if i >= b.len() { return Ordering::Greater; }
        let (x, y) = (lower(a[i]), lower(b[i]));
        if x < y { return Ordering::Less; }
        if x > y { return Ordering::Greater; }
        i += 1;
    }
    Ordering::Equal
}

//@harness c18_cmp_ignore_ascii_case
//@target util::utf8::{cmp_ignore_ascii_case, cmp_ignore_ascii_case_bytes} (src/util/utf8.rs)
//@prop C18
//@tier quick
//@mode rel
//@timeout 900
//@bounded every pair of byte strings of 0..=3 bytes each (the comparator looks at one position at a time and stops at the first difference: three positions exercise equal prefix, difference and length difference in every combination)
//@doc the comparator is the lexicographic order of the strings with ONLY the letters A-Z folded to a-z (every other byte, '_' '/' '+' '-' digits included, compares as itself): Equal exactly for strings equal up to ASCII case, antisymmetric, and a proper prefix sorts first -- the order the name tables are sorted in
#[kani::proof]
#[kani::unwind(6)]
fn c18_cmp_ignore_ascii_case() {
    let a: [u8; 3] = kani::any();
    let b: [u8; 3] = kani::any();
    let la: usize = kani::any();
    let lb: usize = kani::any();
    kani::assume(la <= 3 && lb <= 3);
    let (sa, sb) = (&a[..la], &b[..lb]);
    let r = cmp_ignore_ascii_case_bytes(sa, sb);
    assert!(r == ref_cmp(sa, sb));
    assert!(cmp_ignore_ascii_case_bytes(sb, sa) == r.reverse());
}
