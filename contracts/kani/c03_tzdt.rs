//! C03/C04: the packed civil datetime of the TZif lookup tables.  Discharges the order fact that unit `tzif`
//! (contracts/verus/tzif.vrs, `axiom_tzdt_order`) uses: comparing packed values compares civil datetimes.
use crate::shared::TzifDateTime;

fn any_fields() -> (i16, i8, i8, i8, i8, i8) {
    let f: (i16, i8, i8, i8, i8, i8) = (kani::any(), kani::any(), kani::any(), kani::any(), kani::any(), kani::any());
    // every civil datetime to the second that jiff can represent (a superset: days up to 31 in every month)
    kani::assume(-9999 <= f.0 && f.0 <= 9999 && 1 <= f.1 && f.1 <= 12 && 1 <= f.2 && f.2 <= 31);
    kani::assume(0 <= f.3 && f.3 <= 23 && 0 <= f.4 && f.4 <= 59 && 0 <= f.5 && f.5 <= 59);
    f
}

//@harness c03_tzdt_order
//@target shared::TzifDateTime::{new, year, month, day, hour, minute, second} and its derived Ord (src/shared/mod.rs)
//@prop C03 C04
//@tier quick
//@mode rel
//@doc for every two civil datetimes (to the second): the derived order/equality of the packed i64 is the lexicographic order/equality of (year, month, day, hour, minute, second) -- negative years included -- and the accessors return the packed fields (loop-free, full domain)
#[kani::proof]
fn c03_tzdt_order() {
    let a = any_fields();
    let b = any_fields();
    let pa = TzifDateTime::new(a.0, a.1, a.2, a.3, a.4, a.5);
    let pb = TzifDateTime::new(b.0, b.1, b.2, b.3, b.4, b.5);
    assert!((pa < pb) == (a < b));
    assert!((pa == pb) == (a == b));
    assert!((pa <= pb) == (a <= b));
    assert!(pa.cmp(&pb) == a.cmp(&b));
    assert!((pa.year(), pa.month(), pa.day(), pa.hour(), pa.minute(), pa.second()) == a);
}
