//@inject src/fmt/offset.rs
//! C17 / C09: the UTC offset parser (`fmt::offset::Parser`, used by the Temporal/RFC 3339/RFC 9557 datetime parsers and
//! by `%z`-less contexts) is total, what it accepts is the offset the text spells, and the `Offset` built from it is
//! inside -93599..=93599.  Built without `alloc` (errors keep only a static message, so no formatter stub is needed).
use super::*;

fn is_dig(b: u8) -> bool { b'0' <= b && b <= b'9' }
fn dv(b: &[u8], at: usize) -> i32 { if at < b.len() { b[at].wrapping_sub(b'0') as i32 } else { 0 } }
fn dec2(b: &[u8], at: usize) -> i32 { dv(b, at) * 10 + dv(b, at + 1) }
fn two_digits(b: &[u8], at: usize) -> bool { at + 2 <= b.len() && is_dig(b[at]) && is_dig(b[at + 1]) }

/// the checks shared by the bounded and the shape harness
fn check(cfg: &Parser, input: &[u8]) -> bool {
    let len = input.len();
    match cfg.parse(input) {
        Err(_) => false,
        Ok(Parsed { value, input: rest }) => {
            assert!(rest.len() <= len);
            let used = len - rest.len();
            match value.kind {
                ParsedOffsetKind::Zulu => {
                    assert!(cfg.zulu && (input[0] == b'Z' || input[0] == b'z') && used == 1);
                    assert!(value.to_offset().unwrap().seconds() == 0);
                }
                ParsedOffsetKind::Numeric(ref n) => {
                    // ---- the fields are the ones the text spells
                    assert!(input[0] == b'+' || input[0] == b'-');
                    let sign: i32 = if input[0] == b'-' { -1 } else { 1 };
                    assert!(i32::from(n.sign.get()) == sign);
                    assert!(two_digits(input, 1));
                    let h = dec2(input, 1);
                    assert!(i32::from(n.hours.get()) == h && h <= 25);
                    let ext = len > 3 && input[3] == b':';
                    let w = if ext { 1 } else { 0 };   // width of the separator
                    let (mut m, mut s, mut up) = (0, 0, false);
                    let mut at = 3;
                    match n.minutes {
                        None => { assert!(n.seconds.is_none() && n.nanoseconds.is_none()); assert!(!ext && !two_digits(input, 3)); }
                        Some(mm) => {
                            assert!(two_digits(input, at + w));
                            m = dec2(input, at + w);
                            assert!(i32::from(mm.get()) == m && m <= 59);
                            at += w + 2;
                            match n.seconds {
                                None => assert!(n.nanoseconds.is_none()),
                                Some(ss) => {
                                    assert!(cfg.subminute && two_digits(input, at + w) && (!ext || input[at] == b':'));
                                    s = dec2(input, at + w);
                                    assert!(i32::from(ss.get()) == s && s <= 59);
                                    at += w + 2;
                                    if let Some(ns) = n.nanoseconds {
                                        assert!(cfg.subsecond && (input[at] == b'.' || input[at] == b','));
                                        let ns = ns.get();
                                        assert!(0 <= ns && ns <= 999_999_999);
                                        // the rounding digit is the first fractional digit
                                        assert!(is_dig(input[at + 1]));
                                        up = ns >= 500_000_000;
                                        assert!(up == (input[at + 1] >= b'5'));
                                        assert!(i64::from(ns / 100_000_000) == i64::from(dv(input, at + 1)));
                                        let mut k = 0;
                                        while k < 9 && at + 1 + k < len && is_dig(input[at + 1 + k]) { k += 1; }
                                        at += 1 + k;
                                    }
                                }
                            }
                        }
                    }
                    assert!(used == at);
                    // ---- C17: building the Offset is total and the value is in range; C09: it is the decoded value
                    let total = h * 3600 + m * 60 + s + if up { 1 } else { 0 };
                    match value.to_offset() {
                        Ok(o) => { assert!(-93599 <= o.seconds() && o.seconds() <= 93599); assert!(o.seconds() == sign * total); }
                        Err(_) => assert!(total == 93600),
                    }
                }
            }
            true
        }
    }
}

//@harness c17_offset_parse_upto_20
//@target fmt::offset::Parser::{parse,parse_numeric,parse_sign,parse_hours,parse_minutes,parse_seconds,parse_separator}, fmt::util::parse_temporal_fraction, fmt::offset::{ParsedOffset,Numeric}::to_offset (src/fmt/offset.rs)
//@prop C17 C09
//@tier thorough
//@timeout 1500
//@bounded every byte string of 0..=20 bytes (the longest offset, "+HH:MM:SS.fffffffff", has 19 bytes; the 20th is lookahead), every parser configuration (zulu, subminute, subsecond)
//@doc parse returns Ok or Err without panicking; Ok => the sign/hours/minutes/seconds/fraction fields are exactly the ones the text spells (basic "+HHMMSS" and extended "+HH:MM:SS" forms, "." or "," fraction of up to 9 digits), hours <= 25, minutes <= 59, seconds <= 59, the unread rest starts right after the last accepted byte; to_offset() on the result is Ok(sign * (h*3600 + m*60 + s, rounded up by one second when the first fractional digit is >= 5)) and that is inside -93599..=93599, or Err exactly when rounding reaches 26:00:00; "Z"/"z" is UTC when enabled
#[kani::proof]
#[kani::unwind(12)]
fn c17_offset_parse_upto_20() {
    let bytes: [u8; 20] = kani::any();
    let len: usize = kani::any(); kani::assume(len <= 20);
    let cfg = Parser { zulu: kani::any(), subminute: kani::any(), subsecond: kani::any() };
    let ok = check(&cfg, &bytes[..len]);
    kani::cover!(ok && len == 19);
    kani::cover!(ok && len == 3);
}

//@harness c09_offset_parse_printed_shape
//@target fmt::offset::Parser::parse on the texts the printers emit: "+HH:MM" and "+HH:MM:SS" (src/fmt/offset.rs)
//@prop C09 C17
//@tier thorough
//@timeout 900
//@doc for every offset -93599..=93599 written as sign, two-digit hours, ":", two-digit minutes and (optionally) ":", two-digit seconds, followed by nothing or by a byte that cannot continue an offset ('[', ' ', NUL): the default parser accepts it, consumes exactly the offset and to_offset() is exactly that offset (the sign of "-00:00" is kept in the parsed sign field)
#[kani::proof]
#[kani::unwind(12)]
fn c09_offset_parse_printed_shape() {
    let secs: i32 = kani::any();
    kani::assume(-93599 <= secs && secs <= 93599);
    let neg: bool = kani::any(); kani::assume(if secs < 0 { neg } else if secs > 0 { !neg } else { true });
    let a = if secs < 0 { -secs } else { secs };
    let (h, m, s) = (a / 3600, (a / 60) % 60, a % 60);
    let with_seconds: bool = kani::any(); kani::assume(with_seconds || s == 0);
    let d = |v: i32| b'0' + (v as u8);
    let mut b = [0u8; 10];
    b[0] = if neg { b'-' } else { b'+' };
    b[1] = d(h / 10); b[2] = d(h % 10); b[3] = b':'; b[4] = d(m / 10); b[5] = d(m % 10);
    let mut n = 6;
    if with_seconds { b[6] = b':'; b[7] = d(s / 10); b[8] = d(s % 10); n = 9; }
    let follow: u8 = kani::any(); kani::assume(follow == b'[' || follow == b' ' || follow == 0);
    b[n] = follow;
    let len = if kani::any() { n } else { n + 1 };
    let cfg = Parser::new();
    match cfg.parse(&b[..len]) {
        Err(_) => assert!(false, "printed offsets are accepted"),
        Ok(Parsed { value, input: rest }) => {
            assert!(rest.len() == len - n);
            match value.to_offset() { Ok(o) => assert!(o.seconds() == secs), Err(_) => assert!(false) }
            if let ParsedOffsetKind::Numeric(ref num) = value.kind { assert!((num.sign.get() < 0) == neg); } else { assert!(false); }
        }
    }
}
