//! C02: the ranged-integer wrappers around the (Verus-proved) itime conversions, and the
//! Timestamp constructors/views.  Relational postconditions (T3a): never re-multiply symbolic values.
use super::memo::*;
use super::spec::*;
use crate::civil::{Date, DateTime, Time};
use crate::shared::util::itime::{IDate, IDateTime, IEpochDay, IOffset, ITime, ITimestamp};
use crate::tz::Offset;
use crate::util::t;
use crate::Timestamp;

pub const TS_MIN_S: i64 = -377705023201;
pub const TS_MAX_S: i64 = 253402207200;

pub fn any_time() -> Time {
    let h: i8 = kani::any();
    let m: i8 = kani::any();
    let s: i8 = kani::any();
    let n: i32 = kani::any();
    kani::assume(0 <= h && h <= 23 && 0 <= m && m <= 59 && 0 <= s && s <= 59 && 0 <= n && n <= 999_999_999);
    Time::new_ranged(t::Hour::new_unchecked(h), t::Minute::new_unchecked(m), t::Second::new_unchecked(s), t::SubsecNanosecond::new_unchecked(n))
}
pub fn any_datetime() -> DateTime {
    DateTime::from_parts(any_date(), any_time())
}
pub fn any_offset() -> Offset {
    let s: i32 = kani::any();
    kani::assume(-93599 <= s && s <= 93599);
    Offset::from_seconds_unchecked(s)
}
/// a symbolic well-formed Timestamp built directly from its representation invariant
pub fn any_timestamp() -> Timestamp {
    let s: i64 = kani::any();
    let n: i32 = kani::any();
    kani::assume(TS_MIN_S <= s && s <= TS_MAX_S && -999_999_999 <= n && n <= 999_999_999);
    kani::assume(!(s > 0 && n < 0) && !(s < 0 && n > 0) && !(s == TS_MIN_S && n < 0));
    Timestamp::from_itimestamp_const(ITimestamp { second: s, nanosecond: n })
}
pub fn ts_wf(ts: Timestamp) -> bool {
    let s = ts.as_second();
    let n = ts.subsec_nanosecond();
    TS_MIN_S <= s && s <= TS_MAX_S && -999_999_999 <= n && n <= 999_999_999
        && !(s > 0 && n < 0) && !(s < 0 && n > 0) && !(s == TS_MIN_S && n < 0)
}

//@harness c02_timestamp_new
//@target Timestamp::new, Timestamp::new_ranged (src/timestamp.rs)
//@prop C02 C05
//@tier quick
//@doc for every (i64 second, i32 nanosecond): Ok iff second in range, |nanosecond| < 10^9 and the instant is not below Timestamp::MIN; the result is the sign-normalised pair denoting the same instant: (ds, dn) in {(0,0),(+1,-10^9),(-1,+10^9)}
#[kani::proof]
fn c02_timestamp_new() {
    let s: i64 = kani::any();
    let n: i32 = kani::any();
    let r = Timestamp::new(s, n);
    let in_range = TS_MIN_S <= s && s <= TS_MAX_S && -999_999_999 <= n && n <= 999_999_999 && !(s == TS_MIN_S && n < 0);
    assert!(r.is_ok() == in_range);
    if let Ok(ts) = r {
        assert!(ts_wf(ts));
        let ds = ts.as_second() - s;
        let dn = ts.subsec_nanosecond() as i64 - n as i64;
        assert!((ds == 0 && dn == 0) || (ds == 1 && dn == -1_000_000_000) || (ds == -1 && dn == 1_000_000_000));
    }
}

//@harness c02_timestamp_constant
//@target Timestamp::constant (src/timestamp.rs)
//@prop C02 C05 C13
//@tier quick
//@doc for every in-range (second, nanosecond) that does not fall below Timestamp::MIN: the const constructor returns the sign-normalised pair denoting the SAME instant ((ds, dn) in {(0,0),(+1,-10^9),(-1,+10^9)}, never two seconds off), well-formed, and equal to Timestamp::new's answer
#[kani::proof]
fn c02_timestamp_constant() {
    let s: i64 = kani::any();
    let n: i32 = kani::any();
    kani::assume(TS_MIN_S <= s && s <= TS_MAX_S && -999_999_999 <= n && n <= 999_999_999 && !(s == TS_MIN_S && n < 0));
    let ts = Timestamp::constant(s, n);
    assert!(ts_wf(ts));
    let ds = ts.as_second() - s;
    let dn = ts.subsec_nanosecond() as i64 - n as i64;
    assert!((ds == 0 && dn == 0) || (ds == 1 && dn == -1_000_000_000) || (ds == -1 && dn == 1_000_000_000));
    let other = Timestamp::new(s, n);
    assert!(other.is_ok());
    if let Ok(o) = other {
        assert!(o.as_second() == ts.as_second() && o.subsec_nanosecond() == ts.subsec_nanosecond());
    }
}

// ---- probe stubs: the itime callee is replaced by a function that records its arguments and returns an
// arbitrary value satisfying the callee's *Verus-proved postcondition*; the wrapper is then checked against
// that contract only (modular: "a caller is checked against the callee's contract, not its body").
static mut P_TS_CALLS: u32 = 0;
static mut P_TS_ARG: (IDateTime, IOffset) = (IDateTime { date: IDate { year: 0, month: 0, day: 0 }, time: ITime { hour: 0, minute: 0, second: 0, subsec_nanosecond: 0 } }, IOffset { second: 0 });
static mut P_TS_RET: ITimestamp = ITimestamp { second: 0, nanosecond: 0 };
fn probe_to_timestamp(idt: &IDateTime, off: IOffset) -> ITimestamp {
    unsafe {
        P_TS_CALLS += 1;
        P_TS_ARG = (*idt, off);
        // postcondition of IDateTime::to_timestamp (unit itime): |ns| < 10^9, signs agree; the second is
        // bounded by the civil range +- offset (consequence of the ensures' equation)
        let r = ITimestamp { second: kani::any(), nanosecond: kani::any() };
        kani::assume(-999_999_999 <= r.nanosecond && r.nanosecond <= 999_999_999);
        kani::assume(!(r.second > 0 && r.nanosecond < 0) && !(r.second < 0 && r.nanosecond > 0));
        kani::assume(-377705116800 - 93599 <= r.second && r.second <= 253402300799 + 93599);
        P_TS_RET = r;
        r
    }
}
static mut P_DT_CALLS: u32 = 0;
static mut P_DT_ARG: (ITimestamp, IOffset) = (ITimestamp { second: 0, nanosecond: 0 }, IOffset { second: 0 });
static mut P_DT_RET: IDateTime = IDateTime { date: IDate { year: 0, month: 0, day: 0 }, time: ITime { hour: 0, minute: 0, second: 0, subsec_nanosecond: 0 } };
fn probe_to_datetime(its: &ITimestamp, off: IOffset) -> IDateTime {
    unsafe {
        P_DT_CALLS += 1;
        P_DT_ARG = (*its, off);
        // postcondition of ITimestamp::to_datetime (unit itime): a valid date and time
        let d = IDate { year: kani::any(), month: kani::any(), day: kani::any() };
        kani::assume(valid(d.year as i64, d.month as i64, d.day as i64));
        let t = ITime { hour: kani::any(), minute: kani::any(), second: kani::any(), subsec_nanosecond: kani::any() };
        kani::assume(0 <= t.hour && t.hour <= 23 && 0 <= t.minute && t.minute <= 59 && 0 <= t.second && t.second <= 59 && 0 <= t.subsec_nanosecond && t.subsec_nanosecond <= 999_999_999);
        let r = IDateTime { date: d, time: t };
        P_DT_RET = r;
        r
    }
}

//@harness c02_offset_to_timestamp
//@target tz::Offset::to_timestamp, Timestamp::from_itimestamp (src/tz/offset.rs, src/timestamp.rs)
//@prop C02 C05 C13
//@tier quick
//@doc for every civil datetime and offset: the wrapper hands exactly (datetime, offset) to IDateTime::to_timestamp (contract: unit itime) and returns Ok(that instant) iff it lies within Timestamp::MIN..=Timestamp::MAX, Err otherwise; every Ok value satisfies the Timestamp invariant
#[kani::proof]
#[kani::stub(IDateTime::to_timestamp, probe_to_timestamp)]
fn c02_offset_to_timestamp() {
    let dt = any_datetime();
    let off = any_offset();
    let r = off.to_timestamp(dt);
    unsafe {
        assert!(P_TS_CALLS == 1);
        assert!(P_TS_ARG.0 == dt.to_idatetime_const() && P_TS_ARG.1.second == off.seconds());
        let w = P_TS_RET;
        let in_range = TS_MIN_S <= w.second && w.second <= TS_MAX_S && !(w.second == TS_MIN_S && w.nanosecond < 0);
        assert!(r.is_ok() == in_range);
        if let Ok(ts) = r {
            assert!(ts.as_second() == w.second && ts.subsec_nanosecond() == w.nanosecond);
            assert!(ts_wf(ts));
        }
    }
}

//@harness c02_offset_to_datetime
//@target tz::Offset::to_datetime (src/tz/offset.rs)
//@prop C02 C05 C13
//@tier quick
//@doc for every in-range timestamp and offset: the wrapper hands exactly (second, nanosecond, offset) to ITimestamp::to_datetime (contract: unit itime) and returns its result unchanged; never panics
#[kani::proof]
#[kani::stub(ITimestamp::to_datetime, probe_to_datetime)]
fn c02_offset_to_datetime() {
    let ts = any_timestamp();
    let off = any_offset();
    let dt = off.to_datetime(ts);
    unsafe {
        assert!(P_DT_CALLS == 1);
        assert!(P_DT_ARG.0.second == ts.as_second() && P_DT_ARG.0.nanosecond == ts.subsec_nanosecond() && P_DT_ARG.1.second == off.seconds());
        assert!(dt.to_idatetime_const() == P_DT_RET);
    }
}

//@harness c02_timestamp_views
//@target Timestamp::{from_second,as_second,subsec_*,as_millisecond,as_microsecond} (src/timestamp.rs)
//@prop C02
//@tier quick
//@timeout 600
//@doc the millisecond/microsecond views are second*10^k + nanosecond/10^(9-k) (which, seconds and nanoseconds having one sign, is the total nanosecond count truncated toward zero: Verus lemma lemma_views in unit sdur/itime); from_second(s) is (s, 0), Ok iff in range
#[kani::proof]
fn c02_timestamp_views() {
    let ts = any_timestamp();
    let s = ts.as_second();
    let n = ts.subsec_nanosecond();
    assert!(ts.subsec_millisecond() as i32 == n / 1_000_000);
    assert!(ts.subsec_microsecond() as i32 == n / 1_000);
    assert!(ts.as_millisecond() == s * 1000 + (n / 1_000_000) as i64);
    assert!(ts.as_microsecond() == s * 1_000_000 + (n / 1_000) as i64);
    let sec: i64 = kani::any();
    let r = Timestamp::from_second(sec);
    assert!(r.is_ok() == (TS_MIN_S <= sec && sec <= TS_MAX_S));
    if let Ok(t2) = r { assert!(t2.as_second() == sec && t2.subsec_nanosecond() == 0); }
}
