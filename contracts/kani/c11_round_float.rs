//@inject src/util/round/mode.rs
//! C11 (calendar-unit rounding of spans goes through f64): RoundMode::round_float on the real code, IEEE-754 bit-precise (CBMC).
use super::*;

/// the mode-prescribed integer neighbour of a real `q` given as f64, decided by f64 comparisons against r, r +- 1 and r +- 0.5,
/// all of which are exactly representable for |r| < 2^51 (no subtraction involving q: q may be subnormal)
fn ok(mode: RoundMode, q: f64, r: i64) -> bool {
    let rf = r as f64;
    if !(rf - 1.0 < q && q < rf + 1.0) { return false; }          // less than one increment away
    let up = rf >= q;     // r is at or above q  (d = r - q >= 0)
    let down = rf <= q;   // r is at or below q
    let near = rf - 0.5 <= q && q <= rf + 0.5;
    let tie_up = q == rf - 0.5;     // r is the upper neighbour of a tie
    let tie_down = q == rf + 0.5;   // r is the lower neighbour of a tie
    let tie = tie_up || tie_down;
    match mode {
        RoundMode::Ceil => up,
        RoundMode::Floor => down,
        RoundMode::Trunc => if q >= 0.0 { down } else { up },
        RoundMode::Expand => if q >= 0.0 { up } else { down },
        RoundMode::HalfCeil => near && (!tie || tie_up),
        RoundMode::HalfFloor => near && (!tie || tie_down),
        RoundMode::HalfExpand => near && (!tie || if q >= 0.0 { tie_up } else { tie_down }),
        RoundMode::HalfTrunc => near && (!tie || if q >= 0.0 { tie_down } else { tie_up }),
        RoundMode::HalfEven => near && (!tie || r % 2 == 0),
    }
}

// Only the five modes whose code path has no floating-point `%`: Kani 0.68 lowers `f64 % f64` to the IEEE-754 *remainder*
// (round-to-nearest quotient: -1.5 % 1.0 evaluates to +0.5 under CBMC, -0.5 natively), so HalfCeil/HalfFloor/HalfTrunc/HalfEven,
// which test `quotient % 1.0 == 0.5`, cannot be decided by Kani; they are covered by the bounded native check replay/roundfloat.
fn any_mode() -> RoundMode {
    let k: u8 = kani::any();
    kani::assume(k < 5);
    match k { 0 => RoundMode::Ceil, 1 => RoundMode::Floor, 2 => RoundMode::Expand, 3 => RoundMode::Trunc, _ => RoundMode::HalfExpand }
}

//@harness c11_round_float_unit_increment
//@target util::round::mode::RoundMode::round_float (src/util/round/mode.rs), increment 1
//@prop C11 C10
//@tier quick
//@mode rel
//@timeout 900
//@doc for every finite f64 q with |q| <= 2^40 and the five modes Ceil, Floor, Expand, Trunc, HalfExpand (the other four use f64 `%`, which Kani mis-models): round_float(q, 1) is the mode-prescribed integer neighbour of q (less than 1 away, on the prescribed side, ties by the mode's rule) -- IEEE-754 bit-precise, loop-free, full domain of the stated range
#[kani::proof]
fn c11_round_float_unit_increment() {
    let q: f64 = kani::any();
    kani::assume(q.is_finite() && q >= -1099511627776.0 && q <= 1099511627776.0);
    let mode = any_mode();
    let r = mode.round_float(q, NoUnits128::new_unchecked(1));
    let r = r.get();
    assert!(r >= -1099511627777 && r <= 1099511627777);
    assert!(ok(mode, q, r as i64));
}
