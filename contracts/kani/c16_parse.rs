//@inject src/fmt/strtime/parse.rs
//! C16 (parser side): the real `Parser::parse_*` functions of the numeric conversion specifiers, decided on EVERY input
//! they can look at.  A numeric field parser reads the input only at the front: it skips ASCII whitespace, then reads at
//! most W bytes (W = the field's digit count; one more for an optional sign), and hands back the untouched rest as a
//! slice.  So its behaviour on an arbitrary input that does not start with whitespace is its behaviour on the window of
//! the first W (+1) bytes; the harnesses take every window of W + 1 (+1) symbolic bytes with a symbolic length (short
//! inputs included), which is the full domain.  The whitespace skip is an unbounded loop, so inputs WITH leading
//! whitespace are covered by separate bounded stand-ins (up to 3 leading whitespace bytes).
//!
//! Inversion, as composition with the formatter contracts (c16_fields, c16_strftime): see the //@doc of each harness;
//! c16_roundtrip_* additionally runs the real format() and the real parse functions back to back for every value.
use super::*;
use crate::civil::{Date, DateTime, Time};
use crate::fmt::strtime::format::Formatter;
use crate::shared::util::itime::{IDate, IEpochDay};
use crate::verif_kani::spec::*;

const NOEXT: Extension = Extension { flag: None, width: None };

fn is_ws(b: u8) -> bool { b == b' ' || b == b'\t' || b == b'\n' || b == 0x0C || b == b'\r' }
fn is_dig(b: u8) -> bool { b'0' <= b && b <= b'9' }
/// reference reading of `ws* digit{1,w}` at `from`: (whitespace count, digit count (<= w), value of the digits)
fn shape(inp: &[u8], from: usize, w: usize) -> (usize, usize, i64) {
    let mut ws = 0;
    while from + ws < inp.len() && is_ws(inp[from + ws]) { ws += 1; }
    let at = from + ws;
    let mut k = 0;
    let mut v: i64 = 0;
    while k < w && at + k < inp.len() && is_dig(inp[at + k]) {
        v = v * 10 + (inp[at + k] - b'0') as i64;
        k += 1;
    }
    (ws, k, v)
}

fn two_digit_fields(inp: &[u8]) {
    let which: u8 = kani::any();
    kani::assume(which < 8);
    let mut tm = BrokenDownTime::default();
    let (r, rest, fl) = {
        let mut p = Parser { fmt: b"x", inp, tm: &mut tm };
        let r = match which {
            7 => p.parse_iso_week_year2(NOEXT),
            0 => p.parse_month(NOEXT),
            1 => p.parse_day(NOEXT),
            2 => p.parse_hour24(NOEXT),
            3 => p.parse_minute(NOEXT),
            4 => p.parse_second(NOEXT),
            5 => p.parse_year2(NOEXT),
            _ => p.parse_hour12(NOEXT),
        };
        (r, p.inp.len(), p.fmt.len())
    };
    let (ws, k, v) = shape(inp, 0, 2);
    let (lo, hi) = match which { 0 => (1, 12), 1 => (1, 31), 2 => (0, 23), 3 => (0, 59), 4 => (0, 60), 5 | 7 => (0, 99), _ => (1, 12) };
    let ok = k >= 1 && lo <= v && v <= hi;
    assert!(r.is_ok() == ok);
    let got: Option<i64> = match which {
        0 => tm.month.map(|x| x.get() as i64),
        1 => tm.day.map(|x| x.get() as i64),
        2 | 6 => tm.hour.map(|x| x.get() as i64),
        3 => tm.minute.map(|x| x.get() as i64),
        4 => tm.second.map(|x| x.get() as i64),
        7 => tm.iso_week_year.map(|x| x.get() as i64),
        _ => tm.year.map(|x| x.get() as i64),
    };
    if ok {
        assert!(rest == inp.len() - ws - k && fl == 0);
        let want = match which { 4 => if v == 60 { 59 } else { v }, 5 | 7 => if v <= 68 { 2000 + v } else { 1900 + v }, _ => v };
        assert!(got == Some(want));
        kani::cover!(which == 5 && v == 69);
        kani::cover!(which == 4 && v == 60);
    } else {
        assert!(got.is_none());
    }
}

//@harness c16_parse_two_digit_fields
//@target fmt::strtime::parse::Parser::{parse_month,parse_day,parse_hour24,parse_minute,parse_second,parse_year2,parse_iso_week_year2,parse_hour12} + Extension::parse_number (%m %d/%e %H/%k %M %S %y %g %I/%l) (src/fmt/strtime/parse.rs)
//@prop C16 C17
//@tier quick
//@timeout 900
//@doc every input that does not start with whitespace (window: every byte string of 0..=3 bytes = 2 digits + 1 look-ahead byte): total (Ok or Err, no panic); Ok <=> the input starts with 1 or 2 ASCII digits (at most 2 are taken) whose value lies in the field's range (month 1..=12, day 1..=31, hour 0..=23, minute 0..=59, second 0..=60, 2-digit year 0..=99, 12-hour 1..=12); then exactly those digits are consumed, the directive is consumed, and the field is the decoded value -- except second 60 is stored as 59 (documented: no leap seconds) and the 2-digit year (%y, and likewise the 2-digit ISO week-based year %g) is 2000 + v for v <= 68, 1900 + v otherwise (POSIX pivot); on Err the field stays unset.  Inversion: fmt_month/day_zero/hour24_zero/minute/second/year2/hour12_zero emit exactly 2 digits whose value is the field (c16_fmt_clock_fields, c16_fmt_date_fields), which this contract maps back to the same field value (the year for 1969..=2068, the only years %y formats); %e/%k/%l emit a space and a digit for values below 10, which the whitespace skip accepts (c16_parse_two_digit_fields_ws)
#[kani::proof]
#[kani::unwind(6)]
fn c16_parse_two_digit_fields() {
    let bytes: [u8; 3] = kani::any();
    let len: usize = kani::any();
    kani::assume(len <= 3);
    let inp = &bytes[..len];
    kani::assume(len == 0 || !is_ws(inp[0]));
    two_digit_fields(inp);
}

//@harness c16_parse_two_digit_fields_ws
//@target fmt::strtime::parse::Parser::{parse_month,parse_day,parse_hour24,parse_minute,parse_second,parse_year2,parse_hour12} + Extension::parse_number with leading whitespace (src/fmt/strtime/parse.rs)
//@prop C16 C17
//@tier quick
//@timeout 900
//@bounded every byte string of 0..=6 bytes (so up to 3 leading whitespace bytes before a full 2-digit window; all-whitespace inputs included)
//@doc as c16_parse_two_digit_fields, with any number of leading ASCII whitespace bytes (space, \t, \n, \f, \r) skipped first and counted as consumed; an input of only whitespace is Err
#[kani::proof]
#[kani::unwind(9)]
fn c16_parse_two_digit_fields_ws() {
    let bytes: [u8; 6] = kani::any();
    let len: usize = kani::any();
    kani::assume(len <= 6);
    two_digit_fields(&bytes[..len]);
}

fn signed_or_wide_fields(inp: &[u8]) {
    let which: u8 = kani::any();
    kani::assume(which < 3);
    let mut tm = BrokenDownTime::default();
    let (r, rest, fl) = {
        let mut p = Parser { fmt: b"x", inp, tm: &mut tm };
        let r = match which { 0 => p.parse_year(NOEXT), 1 => p.parse_iso_week_year(NOEXT), _ => p.parse_day_of_year(NOEXT) };
        (r, p.inp.len(), p.fmt.len())
    };
    let signed = which < 2;
    let has_sign = signed && inp.len() > 0 && (inp[0] == b'+' || inp[0] == b'-');
    let from = if has_sign { 1 } else { 0 };
    let (ws, k, v) = shape(inp, from, if signed { 4 } else { 3 });
    let val = if has_sign && inp[0] == b'-' { -v } else { v };
    let ok = k >= 1 && (signed || (1 <= v && v <= 366));
    assert!(r.is_ok() == ok);
    let got: Option<i64> = match which {
        0 => tm.year.map(|x| x.get() as i64),
        1 => tm.iso_week_year.map(|x| x.get() as i64),
        _ => tm.day_of_year.map(|x| x.get() as i64),
    };
    if ok {
        assert!(rest == inp.len() - from - ws - k && fl == 0);
        assert!(got == Some(val));
        assert!(-9999 <= val && val <= 9999);
        kani::cover!(which == 0 && val == -9999);
        kani::cover!(which == 2 && val == 366);
    } else {
        assert!(got.is_none());
    }
}

//@harness c16_parse_year_and_ordinal
//@target fmt::strtime::parse::Parser::{parse_year,parse_iso_week_year,parse_day_of_year} + parse_optional_sign + Extension::parse_number (%Y %G %j) (src/fmt/strtime/parse.rs)
//@prop C16 C17
//@tier quick
//@timeout 900
//@doc every input with no whitespace at the front resp. directly after the sign (window: every byte string of 0..=6 bytes = sign + 4 digits + 1 look-ahead byte): total; %Y and %G: Ok <=> an optional '+' or '-' is followed by 1..=4 ASCII digits (at most 4 are taken); the value is sign * digits, always inside -9999..=9999 ("-0" is year 0); %j: Ok <=> 1..=3 digits with value 1..=366 (no sign); exactly sign + digits are consumed; on Err the field stays unset.  Inversion: fmt_year / fmt_iso_week_year emit ['-'] + exactly 4 zero padded digits of |year| (c16_fmt_date_fields, c16_fmt_iso_week) and fmt_day_of_year exactly 3 digits (c16_numeric_calendar_facts), which this contract maps back to the same year / ordinal day
#[kani::proof]
#[kani::unwind(9)]
fn c16_parse_year_and_ordinal() {
    let bytes: [u8; 6] = kani::any();
    let len: usize = kani::any();
    kani::assume(len <= 6);
    let inp = &bytes[..len];
    // no whitespace where the skip loop would run: at the front, or directly after a sign
    kani::assume(len == 0 || !is_ws(inp[0]));
    kani::assume(len < 2 || !((inp[0] == b'+' || inp[0] == b'-') && is_ws(inp[1])));
    signed_or_wide_fields(inp);
}

//@harness c16_parse_year_and_ordinal_ws
//@target fmt::strtime::parse::Parser::{parse_year,parse_iso_week_year,parse_day_of_year} with whitespace (src/fmt/strtime/parse.rs)
//@prop C16 C17
//@tier quick
//@timeout 900
//@bounded every byte string of 0..=8 bytes (up to 3 whitespace bytes in front of, or between the sign and, a full 4-digit window)
//@doc as c16_parse_year_and_ordinal, with ASCII whitespace skipped before the digits; for %Y/%G the sign, if any, must be the very first byte and whitespace may FOLLOW it ("-  24" is year -24: this is what "%_Y" prints for negative years), whitespace before a sign is Err
#[kani::proof]
#[kani::unwind(11)]
fn c16_parse_year_and_ordinal_ws() {
    let bytes: [u8; 8] = kani::any();
    let len: usize = kani::any();
    kani::assume(len <= 8);
    signed_or_wide_fields(&bytes[..len]);
}

//@harness c16_parse_ampm
//@target fmt::strtime::parse::Parser::parse_ampm + parse_ampm (%p %P) (src/fmt/strtime/parse.rs)
//@prop C16 C17
//@tier quick
//@timeout 300
//@doc every input (window: every byte string of 0..=3 bytes; no whitespace skipping here): total; Ok <=> at least 2 bytes and the first two are "am" or "pm" in any ASCII case mix; then exactly 2 bytes are consumed and the meridiem is AM resp. PM; on Err it stays unset.  Inversion: %p/%P emit "AM"/"am" for hours 0..=11 and "PM"/"pm" for 12..=23 (c16_fmt_ampm), accepted here with that meridiem; together with %I (c16_parse_two_digit_fields) BrokenDownTime::hour_ranged gives back the original hour (also proved in c16_fmt_ampm)
#[kani::proof]
#[kani::unwind(6)]
fn c16_parse_ampm() {
    let bytes: [u8; 3] = kani::any();
    let len: usize = kani::any();
    kani::assume(len <= 3);
    let inp = &bytes[..len];
    let mut tm = BrokenDownTime::default();
    let (r, rest, fl) = {
        let mut p = Parser { fmt: b"p", inp, tm: &mut tm };
        let r = p.parse_ampm();
        (r, p.inp.len(), p.fmt.len())
    };
    let m_ok = len >= 2 && (inp[1] == b'm' || inp[1] == b'M');
    let am = m_ok && (inp[0] == b'a' || inp[0] == b'A');
    let pm = m_ok && (inp[0] == b'p' || inp[0] == b'P');
    assert!(r.is_ok() == (am || pm));
    if am || pm {
        assert!(rest == len - 2 && fl == 0);
        assert!(tm.meridiem == Some(if am { Meridiem::AM } else { Meridiem::PM }));
    } else {
        assert!(tm.meridiem.is_none());
    }
}

fn d2(b: &[u8], at: usize) -> i32 { ((b[at] - b'0') as i32) * 10 + (b[at + 1] - b'0') as i32 }
fn two_digits(b: &[u8], at: usize) -> bool { at + 2 <= b.len() && is_dig(b[at]) && is_dig(b[at + 1]) }
/// reference reading of `[+-]HHMM[SS]` / `[+-]HH:MM[:SS]`: Some((offset seconds, bytes consumed)) or None (rejected)
fn ref_offset(inp: &[u8], colon: bool) -> Option<(i32, usize)> {
    if inp.len() < 1 || !(inp[0] == b'+' || inp[0] == b'-') { return None; }
    let sign = if inp[0] == b'-' { -1 } else { 1 };
    let mut q = 1;
    if !two_digits(inp, q) { return None; }
    let hh = d2(inp, q); q += 2;
    if colon { if !(q < inp.len() && inp[q] == b':') { return None; } q += 1; }
    if !two_digits(inp, q) { return None; }
    let mm = d2(inp, q); q += 2;
    if hh > 25 || mm > 59 { return None; }
    let mut ss = 0;
    let q2 = if colon { q + 1 } else { q };
    if (!colon || (q < inp.len() && inp[q] == b':')) && two_digits(inp, q2) {
        ss = d2(inp, q2);
        if ss > 59 { return None; }
        q = q2 + 2;
        if q < inp.len() && inp[q] == b'.' { return None; }
    }
    Some((sign * (hh * 3600 + mm * 60 + ss), q))
}

//@harness c16_parse_offset
//@target fmt::strtime::parse::Parser::{parse_offset_nocolon,parse_offset_colon} + parse_required_sign (%z %:z) (src/fmt/strtime/parse.rs)
//@prop C16 C17 C09
//@tier quick
//@timeout 900
//@doc every input (window: every byte string of 0..=11 bytes = sign + "HH:MM:SS" + "." look-ahead + 1; no whitespace skipping): total; %z: Ok <=> '+'/'-' followed by 4 digits HHMM with HH <= 25 and MM <= 59, optionally followed by 2 more digits SS <= 59 that are not followed by '.' (two digits after MM are ALWAYS taken as seconds; SS > 59 or a following '.' is Err, not a shorter match); %:z likewise with "HH:MM" and optional ":SS"; the offset is sign * (HH*3600 + MM*60 + SS), inside -93599..=93599, and exactly those bytes are consumed.  Inversion: write_offset (c16_write_offset) emits sign, HH, [:]MM and [:]SS iff the seconds are non-zero, with HH*3600+MM*60+SS == |offset| and '-' exactly for negative offsets, which this contract maps back to the same offset (provided the text is not directly followed by two digits / ":dd" or '.')
#[kani::proof]
#[kani::unwind(6)]
fn c16_parse_offset() {
    let bytes: [u8; 11] = kani::any();
    let len: usize = kani::any();
    kani::assume(len <= 11);
    let inp = &bytes[..len];
    let colon: bool = kani::any();
    let mut tm = BrokenDownTime::default();
    let (r, rest, fl) = {
        let mut p = Parser { fmt: b"z", inp, tm: &mut tm };
        let r = if colon { p.parse_offset_colon() } else { p.parse_offset_nocolon() };
        (r, p.inp.len(), p.fmt.len())
    };
    let want = ref_offset(inp, colon);
    assert!(r.is_ok() == want.is_some());
    if let Some((secs, q)) = want {
        assert!(rest == len - q && fl == 0);
        assert!(tm.offset.map(|o| o.seconds()) == Some(secs));
        assert!(-93599 <= secs && secs <= 93599);
        kani::cover!(secs == -93599);
        kani::cover!(secs == 19800 && q == 5);
    } else {
        assert!(tm.offset.is_none());
    }
}

fn any_flag() -> Option<Flag> {
    let k: u8 = kani::any();
    kani::assume(k < 6);
    match k { 0 => None, 1 => Some(Flag::PadSpace), 2 => Some(Flag::PadZero), 3 => Some(Flag::NoPad), 4 => Some(Flag::Uppercase), _ => Some(Flag::Swapcase) }
}

//@harness c16_parse_number_extension
//@target fmt::strtime::parse::Extension::parse_number (flag and width extensions when parsing) (src/fmt/strtime/parse.rs)
//@prop C16 C17
//@tier quick
//@timeout 900
//@bounded explicit widths 0..=8 (or absent), default widths 1..=4, inputs of 0..=10 bytes without leading whitespace
//@doc for every flag, width and default width: the number of digits taken is at most max(default width, explicit width) -- the explicit width counts only when the effective flag pads with zeros (none, `0`, `^`, `#`; with `_` and `-` the default width is the limit); Ok <=> at least one digit; the value is the decimal value of the digits taken and the rest starts right after them
#[kani::proof]
#[kani::unwind(13)]
fn c16_parse_number_extension() {
    let bytes: [u8; 10] = kani::any();
    let len: usize = kani::any();
    kani::assume(len <= 10);
    let inp = &bytes[..len];
    kani::assume(len == 0 || !is_ws(inp[0]));
    let flag = any_flag();
    let width: Option<u8> = kani::any();
    kani::assume(match width { Some(x) => x <= 8, None => true });
    let dw: usize = kani::any();
    kani::assume(1 <= dw && dw <= 4);
    let ext = Extension { flag, width };
    let r = ext.parse_number(dw, Flag::PadZero, inp);
    let zero_padded = !matches!(flag, Some(Flag::PadSpace) | Some(Flag::NoPad));
    let maxd = match width { Some(x) if zero_padded && (x as usize) > dw => x as usize, _ => dw };
    let (_, k, v) = shape(inp, 0, maxd);
    match r {
        Ok((n, rest)) => { assert!(k >= 1 && n == v && rest.len() == len - k); }
        Err(_) => assert!(k == 0),
    }
}

// ---------------------------------------------------------------------------------- round trips on the real code
pub struct Buf { pub b: [u8; 24], pub n: usize, pub overflow: bool }
impl Buf { pub fn new() -> Buf { Buf { b: [0; 24], n: 0, overflow: false } } }
impl crate::fmt::Write for Buf {
    fn write_str(&mut self, s: &str) -> Result<(), Error> {
        let bytes = s.as_bytes();
        let mut i = 0;
        while i < bytes.len() {
            if self.n >= 24 { self.overflow = true; return Ok(()); }
            self.b[self.n] = bytes[i];
            self.n += 1;
            i += 1;
        }
        Ok(())
    }
}
/// format `tm` with the real `Formatter::format` loop into a fresh buffer
fn fmt_into(fmt: &'static [u8], tm: &BrokenDownTime, w: &mut Buf) -> bool {
    let ok = { let mut f = Formatter { fmt, tm, wtr: w }; f.format().is_ok() };
    ok
}
/// one literal byte of the format, the way `Parser::parse` handles it (`parse_literal`)
fn lit<'i>(c: &'static [u8], inp: &'i [u8], tm: &mut BrokenDownTime) -> &'i [u8] {
    let mut p = Parser { fmt: c, inp, tm };
    let r = p.parse_literal();
    assert!(r.is_ok());
    p.inp
}
/// one directive, the way `Parser::parse` handles it: the method the directive table names, on the current rest of the input
macro_rules! dir {
    ($inp:expr, $tm:expr, $m:ident ( $($a:expr),* )) => {{
        let mut p = Parser { fmt: b"x", inp: $inp, tm: $tm };
        let r = p.$m($($a),*);
        assert!(r.is_ok());
        p.inp
    }};
}
fn any_time() -> Time {
    let h: i8 = kani::any(); kani::assume(0 <= h && h <= 23);
    let m: i8 = kani::any(); kani::assume(0 <= m && m <= 59);
    let s: i8 = kani::any(); kani::assume(0 <= s && s <= 59);
    let ns: i32 = kani::any(); kani::assume(0 <= ns && ns <= 999_999_999);
    Time::new_ranged(t::Hour::new_unchecked(h), t::Minute::new_unchecked(m), t::Second::new_unchecked(s), t::SubsecNanosecond::new_unchecked(ns))
}

// The parse side of a round trip is the sequence of calls `Parser::parse` makes for the format (one fresh `Parser` per
// item, so that the format position stays a constant for the model checker; running the `parse()` loop itself makes the
// directive byte symbolic after the first item and CBMC then unrolls every arm, including the recursive %D %F %T %R,
// to the unwinding depth: out of memory after 20 min, measured)

//@harness c16_roundtrip_date
//@target fmt::strtime::format::Formatter::format then parse::Parser::{parse_year,parse_literal,parse_month,parse_day,parse_year2,parse_century} (%Y-%m-%d, %e, %y, %C) (src/fmt/strtime/format.rs, src/fmt/strtime/parse.rs)
//@prop C16
//@tier thorough
//@timeout 2400
//@doc for every civil date each format below is formatted by the real format() loop into a buffer and that text is handed to the parse functions the format names, in order: every step is Ok, all of the text is consumed, and the fields are the original ones -- "%Y-%m-%d" (year, month, day; negative and short years included), "%e" (day), "%y" (the year, for 1969..=2068; formatting is Err elsewhere), "%C" (the year rounded toward zero to a multiple of 100)
#[kani::proof]
#[kani::unwind(26)]
fn c16_roundtrip_date() {
    let date = any_date();
    let tm = BrokenDownTime::from(date);
    let mut out = BrokenDownTime::default();
    let mut w = Buf::new();
    let which: u8 = kani::any();
    kani::assume(which < 4);
    match which {
        0 => {
            assert!(fmt_into(b"%Y-%m-%d", &tm, &mut w) && !w.overflow);
            let rest = dir!(&w.b[..w.n], &mut out, parse_year(NOEXT));
            let rest = lit(b"-", rest, &mut out);
            let rest = dir!(rest, &mut out, parse_month(NOEXT));
            let rest = lit(b"-", rest, &mut out);
            let rest = dir!(rest, &mut out, parse_day(NOEXT));
            assert!(rest.is_empty());
            assert!(out.year == tm.year && out.month == tm.month && out.day == tm.day);
        }
        1 => {
            assert!(fmt_into(b"%e", &tm, &mut w) && !w.overflow);
            let rest = dir!(&w.b[..w.n], &mut out, parse_day(NOEXT));
            assert!(rest.is_empty() && out.day == tm.day);
        }
        2 => {
            let ok = fmt_into(b"%y", &tm, &mut w);
            assert!(ok == (1969 <= date.year() && date.year() <= 2068));
            if ok {
                let rest = dir!(&w.b[..w.n], &mut out, parse_year2(NOEXT));
                assert!(rest.is_empty() && out.year == tm.year);
            }
        }
        _ => {
            assert!(fmt_into(b"%C", &tm, &mut w) && !w.overflow);
            let rest = dir!(&w.b[..w.n], &mut out, parse_century(NOEXT));
            assert!(rest.is_empty() && out.year.map(|y| y.get() as i64) == Some((date.year() as i64 / 100) * 100));
        }
    }
}

//@harness c16_roundtrip_time
//@target fmt::strtime::format::Formatter::format then parse::Parser::{parse_hour24,parse_literal,parse_minute,parse_second} (%H:%M:%S = %T, %k) (src/fmt/strtime/format.rs, src/fmt/strtime/parse.rs)
//@prop C16
//@tier thorough
//@timeout 2400
//@doc for every civil time: "%H:%M:%S" and "%T" (which must print the same text) and "%k" are formatted by the real format() loop and the text handed to the parse functions the format names, in order: every step Ok, all text consumed, same hour / minute / second, no meridiem set
#[kani::proof]
#[kani::unwind(26)]
fn c16_roundtrip_time() {
    let time = any_time();
    let tm = BrokenDownTime::from(time);
    let mut out = BrokenDownTime::default();
    let mut w = Buf::new();
    let which: u8 = kani::any();
    kani::assume(which < 3);
    if which < 2 {
        if which == 0 { assert!(fmt_into(b"%H:%M:%S", &tm, &mut w)); } else { assert!(fmt_into(b"%T", &tm, &mut w)); }
        assert!(!w.overflow && w.n == 8);
        let rest = dir!(&w.b[..w.n], &mut out, parse_hour24(NOEXT));
        let rest = lit(b":", rest, &mut out);
        let rest = dir!(rest, &mut out, parse_minute(NOEXT));
        let rest = lit(b":", rest, &mut out);
        let rest = dir!(rest, &mut out, parse_second(NOEXT));
        assert!(rest.is_empty());
        assert!(out.hour == tm.hour && out.minute == tm.minute && out.second == tm.second);
    } else {
        assert!(fmt_into(b"%k", &tm, &mut w) && !w.overflow);
        let rest = dir!(&w.b[..w.n], &mut out, parse_hour24(NOEXT));
        assert!(rest.is_empty() && out.hour == tm.hour);
    }
    assert!(out.meridiem.is_none());
}

//@harness c16_roundtrip_ampm
//@target fmt::strtime::format::Formatter::format then parse::Parser::{parse_hour12,parse_literal,parse_ampm} + BrokenDownTime::{hour_ranged,to_time} (%I %p) (src/fmt/strtime/format.rs, src/fmt/strtime/parse.rs, src/fmt/strtime/mod.rs)
//@prop C16
//@tier thorough
//@timeout 2400
//@doc for each of the 24 hours (enumerated, so that the case mapping runs on concrete characters): "%I %p" is formatted by the real format() loop and the text handed to the parse functions the format names: every step Ok, all text consumed, same meridiem, and the reconciled time (to_time) has the original hour -- 12 AM is hour 0 and 12 PM is hour 12
#[kani::proof]
#[kani::unwind(26)]
fn c16_roundtrip_ampm() {
    let mut h: i8 = 0;
    while h < 24 {
        ampm_roundtrip_one(h, false);
        h += 1;
    }
}
fn ampm_roundtrip_one(h: i8, lower: bool) {
    let time = Time::new_ranged(t::Hour::new_unchecked(h), t::Minute::new_unchecked(0), t::Second::new_unchecked(0), t::SubsecNanosecond::new_unchecked(0));
    let tm = BrokenDownTime::from(time);
    let mut out = BrokenDownTime::default();
    let mut w = Buf::new();
    if lower { assert!(fmt_into(b"%l%P", &tm, &mut w)); } else { assert!(fmt_into(b"%I %p", &tm, &mut w)); }
    assert!(!w.overflow);
    let rest = dir!(&w.b[..w.n], &mut out, parse_hour12(NOEXT));
    let rest = if lower { rest } else { lit(b" ", rest, &mut out) };
    let rest = dir!(rest, &mut out, parse_ampm());
    assert!(rest.is_empty());
    assert!(out.meridiem == tm.meridiem);
    let back = out.to_time();
    assert!(back.is_ok());
    assert!(back.unwrap().hour() == h);
}

//@harness c16_roundtrip_ampm_lower
//@target fmt::strtime::format::Formatter::format then parse::Parser::{parse_hour12,parse_ampm} + BrokenDownTime::{hour_ranged,to_time} (%l%P) (src/fmt/strtime/format.rs, src/fmt/strtime/parse.rs, src/fmt/strtime/mod.rs)
//@prop C16
//@tier thorough
//@timeout 2400
//@doc as c16_roundtrip_ampm for "%l%P" (space padded 12-hour clock, lower-case am/pm, no separator)
#[kani::proof]
#[kani::unwind(26)]
fn c16_roundtrip_ampm_lower() {
    let mut h: i8 = 0;
    while h < 24 {
        ampm_roundtrip_one(h, true);
        h += 1;
    }
}

//@harness c16_roundtrip_fraction
//@target fmt::strtime::format::Formatter::format then parse::Parser::{parse_fractional,parse_dot_fractional} + util::parse::fraction (%f, %.f) (src/fmt/strtime/format.rs, src/fmt/strtime/parse.rs, src/util/parse.rs)
//@prop C16
//@tier thorough
//@timeout 2400
//@doc for every nanosecond count 0..=999_999_999: "%f" and "%.f" are formatted by the real format() loop and the text parsed back by parse_fractional / parse_dot_fractional: Ok, all text consumed, the same nanosecond count ("%.f" of a zero fraction prints nothing and leaves the fraction unset)
#[kani::proof]
#[kani::unwind(12)]
#[kani::solver(kissat)]
fn c16_roundtrip_fraction() {
    let time = any_time();
    let tm = BrokenDownTime::from(time);
    let mut out = BrokenDownTime::default();
    let mut w = Buf::new();
    if kani::any() {
        assert!(fmt_into(b"%f", &tm, &mut w) && !w.overflow);
        let rest = dir!(&w.b[..w.n], &mut out, parse_fractional(NOEXT));
        assert!(rest.is_empty() && out.subsec == tm.subsec);
    } else {
        assert!(fmt_into(b"%.f", &tm, &mut w) && !w.overflow);
        let rest = dir!(&w.b[..w.n], &mut out, parse_dot_fractional(NOEXT));
        assert!(rest.is_empty());
        if time.subsec_nanosecond() == 0 { assert!(out.subsec.is_none()); } else { assert!(out.subsec == tm.subsec); }
    }
}

//@harness c16_roundtrip_offset
//@target fmt::strtime::format::Formatter::format then parse::Parser::{parse_offset_nocolon,parse_offset_colon} (%z, %:z) (src/fmt/strtime/format.rs, src/fmt/strtime/parse.rs)
//@prop C16 C09
//@tier thorough
//@timeout 2400
//@doc for every offset -93599..=93599: "%z" and "%:z" are formatted by the real format() loop and the text parsed back by parse_offset_nocolon / parse_offset_colon: Ok, all text consumed, the same offset (seconds included; negative offsets below one hour keep their sign)
#[kani::proof]
#[kani::unwind(26)]
fn c16_roundtrip_offset() {
    let off: i32 = kani::any();
    kani::assume(-93599 <= off && off <= 93599);
    let tm = BrokenDownTime { offset: Some(Offset::from_seconds_unchecked(off)), ..BrokenDownTime::default() };
    let mut out = BrokenDownTime::default();
    let mut w = Buf::new();
    let rest = if kani::any() {
        assert!(fmt_into(b"%z", &tm, &mut w) && !w.overflow);
        dir!(&w.b[..w.n], &mut out, parse_offset_nocolon())
    } else {
        assert!(fmt_into(b"%:z", &tm, &mut w) && !w.overflow);
        dir!(&w.b[..w.n], &mut out, parse_offset_colon())
    };
    assert!(rest.is_empty());
    assert!(out.offset.map(|o| o.seconds()) == Some(off));
}

// ---- the name specifiers (enumerated: 7 weekdays, 12 months; all values are concrete, so these are plain executions)
fn weekday_of(i: i8) -> Weekday { Weekday::from_monday_zero_offset(i).unwrap() }

//@harness c16_roundtrip_names
//@target fmt::strtime::format::Formatter::format then parse::Parser::{parse_weekday_abbrev,parse_month_name_abbrev,parse_month_name_full} (%a %b %h %B) (src/fmt/strtime/format.rs, src/fmt/strtime/parse.rs)
//@prop C16
//@tier thorough
//@timeout 1800
//@doc for each of the 7 weekdays and 12 months: what %a / %b / %h / %B print is accepted by the parse function of the same specifier, is consumed completely and yields the same weekday / month
#[kani::proof]
#[kani::unwind(26)]
fn c16_roundtrip_names() {
    let mut i: i8 = 0;
    while i < 7 {
        let tm = BrokenDownTime { weekday: Some(weekday_of(i)), ..BrokenDownTime::default() };
        let mut out = BrokenDownTime::default();
        let mut w = Buf::new();
        assert!(fmt_into(b"%a", &tm, &mut w) && !w.overflow && w.n == 3);
        let rest = dir!(&w.b[..w.n], &mut out, parse_weekday_abbrev());
        assert!(rest.is_empty() && out.weekday == tm.weekday);
        i += 1;
    }
    let mut m: i8 = 1;
    while m <= 12 {
        let tm = BrokenDownTime { month: Some(t::Month::new_unchecked(m)), ..BrokenDownTime::default() };
        let mut out = BrokenDownTime::default();
        let mut w = Buf::new();
        assert!(fmt_into(b"%b", &tm, &mut w) && !w.overflow && w.n == 3);
        let rest = dir!(&w.b[..w.n], &mut out, parse_month_name_abbrev());
        assert!(rest.is_empty() && out.month == tm.month);
        let mut out = BrokenDownTime::default();
        let mut w = Buf::new();
        assert!(fmt_into(b"%B", &tm, &mut w) && !w.overflow);
        let rest = dir!(&w.b[..w.n], &mut out, parse_month_name_full());
        assert!(rest.is_empty() && out.month == tm.month);
        m += 1;
    }
}

//@harness c16_roundtrip_weekday_full_name
//@target fmt::strtime::format::Formatter::fmt_weekday_full then parse::Parser::parse_weekday_full (%A) (src/fmt/strtime/format.rs, src/fmt/strtime/parse.rs)
//@prop C16
//@tier quick
//@timeout 900
//@doc for each of the 7 weekdays: what %A prints is accepted by %A when parsing and yields the same weekday.  On jiff 0.2.8 this FAILS for Tuesday: the parser's table of full weekday names spells it "Tueday" (src/fmt/strtime/parse.rs, parse_weekday_full), so strtime::parse("%A", "Tuesday") is Err while strtime::format("%A", 2024-07-16) is "Tuesday" (and "Tueday" is accepted)
#[kani::proof]
#[kani::unwind(26)]
fn c16_roundtrip_weekday_full_name() {
    let mut i: i8 = 0;
    while i < 7 {
        let tm = BrokenDownTime { weekday: Some(weekday_of(i)), ..BrokenDownTime::default() };
        let mut out = BrokenDownTime::default();
        let mut w = Buf::new();
        assert!(fmt_into(b"%A", &tm, &mut w) && !w.overflow);
        let r = { let mut p = Parser { fmt: b"A", inp: &w.b[..w.n], tm: &mut out }; p.parse_weekday_full() };
        assert!(r.is_ok());
        assert!(out.weekday == tm.weekday);
        i += 1;
    }
}
