//@native
//@inject src/util/round/mode.rs
//! C11/C10: RoundMode::round_float for the four modes whose code tests `quotient % 1.0 == 0.5` (Kani mis-models f64 `%`, see
//! c11_round_float.rs) -- and, for uniformity, all nine: BOUNDED native enumeration on the real function.
use super::*;

const MODES: [RoundMode; 9] = [RoundMode::Ceil, RoundMode::Floor, RoundMode::Expand, RoundMode::Trunc, RoundMode::HalfCeil,
    RoundMode::HalfFloor, RoundMode::HalfExpand, RoundMode::HalfTrunc, RoundMode::HalfEven];

/// round_ok of contracts/verus/lib/roundspec.vrs over exact integers: q8 = 8*q, i8 = 8*inc, r8 = 8*r
fn round_ok(mode: RoundMode, q8: i128, i8_: i128, r8: i128) -> bool {
    if r8.rem_euclid(i8_) != 0 { return false; }
    let d = r8 - q8;
    if !(-i8_ < d && d < i8_) { return false; }
    let half = |m: RoundMode| matches!(m, RoundMode::HalfCeil | RoundMode::HalfFloor | RoundMode::HalfExpand | RoundMode::HalfTrunc | RoundMode::HalfEven);
    if half(mode) && !(-i8_ <= 2 * d && 2 * d <= i8_) { return false; }
    let tie = 2 * d == i8_ || 2 * d == -i8_;
    match mode {
        RoundMode::Ceil => d >= 0,
        RoundMode::Floor => d <= 0,
        RoundMode::Trunc => if q8 >= 0 { 0 <= r8 && r8 <= q8 } else { q8 <= r8 && r8 <= 0 },
        RoundMode::Expand => if q8 >= 0 { d >= 0 } else { d <= 0 },
        RoundMode::HalfCeil => !tie || d > 0,
        RoundMode::HalfFloor => !tie || d < 0,
        RoundMode::HalfExpand => !tie || if q8 >= 0 { d > 0 } else { d < 0 },
        RoundMode::HalfTrunc => !tie || if q8 >= 0 { d < 0 } else { d > 0 },
        RoundMode::HalfEven => !tie || r8.rem_euclid(2 * i8_) == 0,
    }
}

//@harness c11_round_float_native
//@target util::round::mode::RoundMode::round_float (src/util/round/mode.rs)
//@prop C11 C10
//@tier quick
//@mode native
//@timeout 900
//@bounded every multiple of 1/8 in [-4096, 4096] x increments {1,2,3,4,5,6,7,8,10,12,15,20,24,30,60,100} x all nine modes (native enumeration, 9.4 million calls); at these magnitudes the f64 quotient q/inc is exact whenever it is an integer or a half-integer and otherwise stays strictly on its side of both (true distance >= 1/1600 >> 1 ulp), so the exact-rational oracle applies to every triple
//@doc within the stated bound round_float(q, inc) == the unique round_ok value (whole multiple of inc, less than one increment away, on the side the mode prescribes, ties by the mode's rule -- for negative quantities too)
#[test]
fn c11_round_float_native() {
    let incs: [i64; 16] = [1, 2, 3, 4, 5, 6, 7, 8, 10, 12, 15, 20, 24, 30, 60, 100];
    let mut bad = 0u64;
    for mode in MODES {
        for inc in incs {
            for q8 in (-4096i64 * 8)..=(4096 * 8) {
                let q = (q8 as f64) / 8.0;            // exact
                let r = mode.round_float(q, NoUnits128::new_unchecked(inc as i128)).get();
                if !round_ok(mode, q8 as i128, 8 * inc as i128, 8 * r) {
                    if bad < 5 { std::println!("WITNESS mode={:?} q={} inc={} got={}", mode, q, inc, r); }
                    bad += 1;
                }
            }
        }
    }
    assert!(bad == 0, "{} (mode, quantity, increment) triples violate round_ok", bad);
}
