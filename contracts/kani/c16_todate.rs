//@inject src/fmt/strtime/mod.rs
//! C16 (field reconciliation): `BrokenDownTime::to_date` on every combination of parsed fields of one kind, against the
//! calendar.  The two Neri-Schneider conversions (`IDate::to_epoch_day`, `IEpochDay::to_date`) are replaced by an
//! axiomatised day count around the year under test (see `ax_init`); everything else is the real code.
use super::*;
use crate::shared::util::itime::{IDate, IEpochDay};
use crate::verif_kani::spec::*;

// ---- the day count E around one "hint" year, axiomatised (no Neri-Schneider code, no closed form):
//   E(y,m,d) = J(y) + doy(y,m,d) - 1           (greg.vrs lemma_doy_rd)
//   J(y+1)   = J(y) + days_in_year(y)           (greg.vrs lemma_rd_year)
// for the four years hint-1 ..= hint+2, with J(hint) arbitrary such that the three years hint-1..=hint+1 lie in the supported range, and the two range
// anchors J(-9999) = -4371587 and J(9999) = 2932532 (lemma_rd_bounds: E(9999,12,31) = 2932896).  Every fact is one the Verus
// unit itime proves of the real `IDate::to_epoch_day`; `IEpochDay::to_date` is its inverse.  Both stubs ASSERT that they are
// only asked about these years, so nothing is assumed elsewhere.
static mut AX_H: i32 = 0;
static mut AX_J: i32 = 0;
fn ax_init(h: i32) {
    let j: i32 = kani::any();
    kani::assume(E_MIN <= j && j <= E_MAX - 364);
    if h == -9999 { kani::assume(j == E_MIN); }
    if h == 9999 { kani::assume(j == 2932532); }
    unsafe { AX_H = h; AX_J = j; }
    // every day of the years hint-1 ..= hint+1 that exists lies in the supported range (lemma_rd_bounds + monotonicity)
    if h > -9999 { kani::assume(ax_jan1(h - 1) >= E_MIN); }
    if h < 9999 { kani::assume(ax_jan1(h + 2) - 1 <= E_MAX); }
}
fn ax_jan1(y: i32) -> i32 {
    let (h, j) = unsafe { (AX_H, AX_J) };
    if y == h { j }
    else if y == h + 1 { j + diy(h as i64) as i32 }
    else if y == h + 2 { j + diy(h as i64) as i32 + diy(h as i64 + 1) as i32 }
    else if y == h - 1 { j - diy(h as i64 - 1) as i32 }
    else { assert!(false, "day count asked about a year outside hint-1..=hint+2"); 0 }
}
fn ax_e(y: i64, m: i64, d: i64) -> i64 { ax_jan1(y as i32) as i64 + doy(y, m, d) - 1 }
fn ax_to_epoch_day(d: &IDate) -> IEpochDay {
    // precondition of the verified contract: a supported date, or 10000-01-04 (the one extra date the ISO week code builds, see c01_isoweek)
    assert!(valid(d.year as i64, d.month as i64, d.day as i64) || (d.year == 10000 && d.month == 1 && d.day == 4));
    IEpochDay { epoch_day: ax_e(d.year as i64, d.month as i64, d.day as i64) as i32 }
}
fn ax_to_date(e: &IEpochDay) -> IDate {
    assert!(E_MIN <= e.epoch_day && e.epoch_day <= E_MAX);
    let h = unsafe { AX_H };
    let d = IDate { year: kani::any(), month: kani::any(), day: kani::any() };
    kani::assume(valid(d.year as i64, d.month as i64, d.day as i64));
    let mut hit = false;
    let mut i = -1;
    while i <= 1 {
        let yy = h + i;
        if -9999 <= yy && yy <= 9999 {
            let k = (e.epoch_day - ax_jan1(yy)) as i64;
            if 0 <= k && k < diy(yy as i64) {
                kani::assume(d.year as i32 == yy && doy(yy as i64, d.month as i64, d.day as i64) == k + 1);
                hit = true;
            }
        }
        i += 1;
    }
    assert!(hit, "to_date asked about a day outside the years hint-1..=hint+1");
    d
}
// the weekday of a day number near the hint year, W(e) = (W(J(hint)) + (e - J(hint))) mod 7 -- what the contract of
// `IEpochDay::weekday` (wd(e) = (e + 3) mod 7, Verus unit itime) says, written relative to January 1 of the hint year so
// that the model checker reasons modulo 7 about small numbers only; W(J(hint)) is arbitrary (0 = Monday) except at the anchors
static mut AX_W0: i16 = 0;
fn ax_init_weekday(h: i32) {
    let w0: i16 = kani::any();
    kani::assume(0 <= w0 && w0 <= 6);
    if h == -9999 { kani::assume(w0 == 0); }   // -9999-01-01 is a Monday: (-4371587 + 3) mod 7 == 0
    if h == 9999 { kani::assume(w0 == 4); }    // 9999-01-01 is a Friday: (2932532 + 3) mod 7 == 4
    unsafe { AX_W0 = w0; }
}
fn ax_wd0(e: i64) -> i16 {
    let (j, w0) = unsafe { (AX_J, AX_W0) };
    let k = e - j as i64;
    assert!(-800 <= k && k <= 1200, "weekday asked about a day far from the hint year");
    (w0 + k as i16).rem_euclid(7)
}
fn ax_weekday(e: &IEpochDay) -> crate::shared::util::itime::IWeekday {
    crate::shared::util::itime::IWeekday::from_monday_zero_offset(ax_wd0(e.epoch_day as i64) as i8)
}
fn any_opt_weekday() -> Option<Weekday> { if kani::any() { Some(any_weekday()) } else { None } }
static mut ISO_MODE: bool = false;
fn wd_of(y: i64, m: i64, d: i64) -> i64 { if unsafe { ISO_MODE } { ax_wd0(ax_e(y, m, d)) as i64 + 1 } else { wd(ax_e(y, m, d)) } }

//@harness c16_to_date_gregorian
//@target fmt::strtime::BrokenDownTime::{to_date,to_date_from_gregorian} (%Y %m %d with an optional weekday %a/%A/%u/%w) (src/fmt/strtime/mod.rs)
//@prop C16
//@tier quick
//@timeout 900
//@doc for every year -9999..=9999, month 1..=12, day 1..=31 (everything the field parsers can store) and an optional weekday: Ok <=> the day exists in that month of that year AND the weekday, if given, is the weekday of that date (a contradicting weekday is rejected); Ok(date) has exactly these year, month, day.  A day-of-year (%j) or week numbers (%U %W) given in addition are NOT cross-checked: they are ignored (shown here by leaving them arbitrary)
#[kani::proof]
#[kani::stub(IDate::to_epoch_day, ax_to_epoch_day)]
#[kani::stub(IEpochDay::to_date, ax_to_date)]
#[kani::unwind(6)]
fn c16_to_date_gregorian() {
    let y: i16 = kani::any(); kani::assume(-9999 <= y && y <= 9999);
    let m: i8 = kani::any(); kani::assume(1 <= m && m <= 12);
    let d: i8 = kani::any(); kani::assume(1 <= d && d <= 31);
    let wk = any_opt_weekday();
    let j: i16 = kani::any(); kani::assume(1 <= j && j <= 366);
    let u: i8 = kani::any(); kani::assume(0 <= u && u <= 53);
    ax_init(y as i32);
    let tm = BrokenDownTime {
        year: Some(t::Year::new_unchecked(y)), month: Some(t::Month::new_unchecked(m)), day: Some(t::Day::new_unchecked(d)),
        weekday: wk,
        day_of_year: if kani::any() { Some(t::DayOfYear::new_unchecked(j)) } else { None },
        week_sun: if kani::any() { Some(t::WeekNum::new_unchecked(u)) } else { None },
        week_mon: if kani::any() { Some(t::WeekNum::new_unchecked(u)) } else { None },
        ..BrokenDownTime::default()
    };
    let r = tm.to_date();
    let (yy, mm, dd) = (y as i64, m as i64, d as i64);
    let exists = dd <= dim(yy, mm);
    let wd_ok = match wk { None => true, Some(w) => exists && wnum(w) == wd_of(yy, mm, dd) };
    assert!(r.is_ok() == (exists && wd_ok));
    if let Ok(date) = r { assert!(ymd(date) == (yy, mm, dd)); }
}

//@harness c16_to_date_ordinal
//@target fmt::strtime::BrokenDownTime::{to_date,to_date_from_day_of_year} + civil::DateWith::build + IDate::from_day_of_year (%Y %j with an optional weekday) (src/fmt/strtime/mod.rs, src/civil/date.rs, src/shared/util/itime.rs)
//@prop C16
//@tier quick
//@timeout 900
//@doc for every year, day-of-year 1..=366 and optional weekday (month and day not both given): Ok <=> the ordinal day exists in the year (366 only in leap years) AND the weekday, if given, agrees; Ok(date) is THE date of that year with that ordinal day (so %j of the result prints the parsed number: c16_numeric_calendar_facts), i.e. "%Y %j" inverts
#[kani::proof]
#[kani::stub(IDate::to_epoch_day, ax_to_epoch_day)]
#[kani::stub(IEpochDay::to_date, ax_to_date)]
#[kani::unwind(6)]
fn c16_to_date_ordinal() {
    let y: i16 = kani::any(); kani::assume(-9999 <= y && y <= 9999);
    let j: i16 = kani::any(); kani::assume(1 <= j && j <= 366);
    let wk = any_opt_weekday();
    let m: i8 = kani::any(); kani::assume(1 <= m && m <= 12);
    let d: i8 = kani::any(); kani::assume(1 <= d && d <= 31);
    let partial: u8 = kani::any(); kani::assume(partial < 3);
    ax_init(y as i32);
    let tm = BrokenDownTime {
        year: Some(t::Year::new_unchecked(y)), day_of_year: Some(t::DayOfYear::new_unchecked(j)), weekday: wk,
        month: if partial == 1 { Some(t::Month::new_unchecked(m)) } else { None },
        day: if partial == 2 { Some(t::Day::new_unchecked(d)) } else { None },
        ..BrokenDownTime::default()
    };
    let r = tm.to_date();
    let yy = y as i64;
    let exists = (j as i64) <= diy(yy);
    match r {
        Ok(date) => {
            let (y2, m2, d2) = ymd(date);
            assert!(exists && y2 == yy && doy(y2, m2, d2) == j as i64);
            kani::cover!(j == 366);
            kani::cover!(wk.is_some());
            if let Some(w) = wk { assert!(wnum(w) == wd_of(y2, m2, d2)); }
        }
        Err(_) => {
            // rejected only for a day that does not exist or a contradicting weekday
            if exists && wk.is_none() { assert!(false); }
            if exists {
                if let Some(w) = wk {
                    // the date with that ordinal day: pick it nondeterministically via the reference functions
                    let m3: i8 = kani::any(); let d3: i8 = kani::any();
                    kani::assume(valid(yy, m3 as i64, d3 as i64) && doy(yy, m3 as i64, d3 as i64) == j as i64);
                    assert!(wnum(w) != wd_of(yy, m3 as i64, d3 as i64));
                }
            }
        }
    }
}

/// reference ISO week-based year and week of a date (the year / week of the Thursday of its Monday-based week)
fn iso_ref(y: i64, m: i64, d: i64) -> (i64, i64) {
    let td = doy(y, m, d) + (4 - wd_of(y, m, d));
    if td < 1 { (y - 1, (td + diy(y - 1) - 1) / 7 + 1) }
    else if td > diy(y) { (y + 1, (td - diy(y) - 1) / 7 + 1) }
    else { (y, (td - 1) / 7 + 1) }
}

//@harness c16_to_date_iso
//@target fmt::strtime::BrokenDownTime::{to_date,to_date_from_iso} + civil::ISOWeekDate::{new_ranged,date} + Date::from_iso_week_date (%G %V with %u/%a, no %Y) (src/fmt/strtime/mod.rs, src/civil/iso_week_date.rs, src/civil/date.rs)
//@prop C16 C01
//@tier quick
//@timeout 900
//@doc for every ISO year -9999..=9999, week 1..=53 and weekday (no Gregorian year given): Ok(date) => the date's ISO week-based year and week (reference: those of the Thursday of its week) are the given ones and its weekday is the given one -- so %G %V %u of the result print the parsed numbers; Err only for week 53 of a year whose week 53 does not exist (the would-be date lies in week 1 of the next ISO year) or for 9999-W52-6/7 (after 9999-12-31)
#[kani::proof]
#[kani::stub(IDate::to_epoch_day, ax_to_epoch_day)]
#[kani::stub(IEpochDay::to_date, ax_to_date)]
#[kani::stub(IEpochDay::weekday, ax_weekday)]
#[kani::unwind(6)]
fn c16_to_date_iso() {
    let gy: i16 = kani::any(); kani::assume(-9999 <= gy && gy <= 9999);
    let gw: i8 = kani::any(); kani::assume(1 <= gw && gw <= 53);
    let w = any_weekday();
    ax_init(gy as i32);
    ax_init_weekday(gy as i32);
    unsafe { ISO_MODE = true; }
    let tm = BrokenDownTime {
        iso_week_year: Some(t::ISOYear::new_unchecked(gy)), iso_week: Some(t::ISOWeek::new_unchecked(gw)), weekday: Some(w),
        ..BrokenDownTime::default()
    };
    match tm.to_date() {
        Ok(date) => {
            let (y, m, d) = ymd(date);
            assert!(iso_ref(y, m, d) == (gy as i64, gw as i64));
            assert!(wd_of(y, m, d) == wnum(w));
            kani::cover!(gw == 53);
            kani::cover!(y == gy as i64 - 1);
            kani::cover!(y == gy as i64 + 1);
            kani::cover!(gy == 9999 && gw == 52 && wnum(w) == 5);
            kani::cover!(gy == -9999 && gw == 1 && wnum(w) == 1);
        }
        Err(_) => {
            // January 4 is always in week 1; week 53 exists iff Dec 28 + 7 days still has its Thursday in the year, i.e. the
            // year's last day is a Thursday or (leap year) a Friday  <=>  Jan 1 is a Thursday, or a Wednesday in a leap year
            let jan1 = wd_of(gy as i64, 1, 1);
            let long = jan1 == 4 || (jan1 == 3 && is_leap(gy as i64));
            assert!((gw == 53 && !long) || (gy == 9999 && gw == 52 && wnum(w) >= 6));
            kani::cover!(gw == 53);
            kani::cover!(gy == 9999 && gw == 52);
        }
    }
}
