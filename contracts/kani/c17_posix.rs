//@inject src/shared/posix.rs
//! C17: the POSIX TZ string parser (`Parser` in src/shared/posix.rs) is total and what it accepts satisfies the
//! well-formedness that the lookup code assumes (the `wf` predicates of the Verus unit posix: PosixOffset in
//! -93599..=93599, PosixTime in -604799..=604799, PosixDay J 1..=365 / n 0..=365 / M 1..=12 . 1..=5 . 0..=6).
//!
//! Layout: (1) leaf parsers, decided for every input they can look at.  Each leaf reads the input only through
//! `byte()/maybe_byte()/is_done()/bump()` at the current position and looks at most K bytes ahead (K is fixed by the
//! digit counts), so its behaviour on an arbitrary input is its behaviour on the window `tz[pos..pos+K+1]`; the
//! harness takes every window of up to K+1 bytes at every start position of a buffer that is 2 bytes longer.
//! (2) glue parsers (rule, DST part, whole zone), decided with the sub-parsers replaced by nondeterministic stubs that
//! implement exactly the contract proved in (1) (assume/guarantee; the stub asserts the callee's precondition).
//! (3) the whole parser on every byte string up to a stated length (bounded stand-in, never counted as proved).
//!
//! Built without `alloc`: `Abbreviation` is the fixed-capacity ArrayStr<30> and `Error::from_args` keeps only a static
//! message, so no error-formatting stub is needed.
use super::*;
use core::cell::Cell;

fn mk<'s>(tz: &'s [u8], pos: usize, iana: bool) -> Parser<'s> {
    Parser { tz, pos: Cell::new(pos), ianav3plus: iana }
}
fn is_dig(b: u8) -> bool { b'0' <= b && b <= b'9' }
/// value of the `n` ASCII digits at `at` (caller checked that they are digits)
fn dec(b: &[u8], at: usize, n: usize) -> i32 {
    let mut v = 0i32;
    let mut i = 0;
    while i < n { v = v * 10 + (b[at + i] - b'0') as i32; i += 1; }
    v
}
/// number of leading digits in b[at..], at most `max`
fn ndig(b: &[u8], at: usize, max: usize) -> usize {
    let mut k = 0;
    while k < max && at + k < b.len() && is_dig(b[at + k]) { k += 1; }
    k
}

// the `wf` predicates of /verif/contracts/verus/posix.vrs, transcribed
fn wf_offset(o: &PosixOffset) -> bool { -93599 <= o.second && o.second <= 93599 }
fn wf_time(t: &PosixTime) -> bool { -604799 <= t.second && t.second <= 604799 }
fn wf_day(d: &PosixDay) -> bool {
    match *d {
        PosixDay::JulianOne(n) => 1 <= n && n <= 365,
        PosixDay::JulianZero(n) => 0 <= n && n <= 365,
        PosixDay::WeekdayOfMonth { month, week, weekday } => 1 <= month && month <= 12 && 1 <= week && week <= 5 && 0 <= weekday && weekday <= 6,
    }
}
fn wf_daytime(d: &PosixDayTime) -> bool { wf_day(&d.date) && wf_time(&d.time) }
fn wf_dst(d: &PosixDst<Abbreviation>) -> bool { wf_offset(&d.offset) && wf_daytime(&d.rule.start) && wf_daytime(&d.rule.end) }
fn wf_tz(t: &PosixTimeZone<Abbreviation>) -> bool {
    wf_offset(&t.std_offset) && match t.dst { Some(ref d) => wf_dst(d), None => true }
}
/// what the abbreviation parsers promise: 3..=30 bytes (so `as_str()`/`as_ref()` cannot panic on the length)
fn wf_abbrev(a: &Abbreviation) -> bool { let n = a.as_str().len(); 3 <= n && n <= 30 }

// ------------------------------------------------------------------------------------------------ (1) leaves

//@harness c17_posix_number_exact
//@target shared::posix::Parser::parse_number_with_exactly_n_digits (src/shared/posix.rs)
//@prop C17
//@tier quick
//@timeout 600
//@doc for n in 1..=3 (call sites use 1 and 2), every window of up to n+1 bytes at every start position: Ok(v) <=> the next n bytes exist and are ASCII digits; then v is their decimal value and the position advanced by exactly n; Err otherwise; the position never passes the end; no panic
#[kani::proof]
#[kani::unwind(5)]
fn c17_posix_number_exact() {
    let bytes: [u8; 6] = kani::any();
    let len: usize = kani::any(); kani::assume(len <= 6);
    let pos: usize = kani::any(); kani::assume(pos <= len);
    let n: usize = kani::any(); kani::assume(1 <= n && n <= 3);
    let tz = &bytes[..len];
    let p = mk(tz, pos, kani::any());
    let r = p.parse_number_with_exactly_n_digits(n);
    assert!(p.pos() <= len);
    let all = pos + n <= len && ndig(tz, pos, n) == n;
    match r {
        Ok(v) => { assert!(all); assert!(p.pos() == pos + n); assert!(v == dec(tz, pos, n)); }
        Err(_) => assert!(!all),
    }
}

//@harness c17_posix_number_upto
//@target shared::posix::Parser::parse_number_with_upto_n_digits (src/shared/posix.rs)
//@prop C17
//@tier quick
//@timeout 600
//@doc for n in 1..=3 (call sites use 2 and 3), every window of up to n+1 bytes at every start position: with k = number of leading ASCII digits (at most n), Ok(v) <=> k >= 1; then v is the value of those k digits and the position advanced by exactly k; no panic
#[kani::proof]
#[kani::unwind(5)]
fn c17_posix_number_upto() {
    let bytes: [u8; 6] = kani::any();
    let len: usize = kani::any(); kani::assume(len <= 6);
    let pos: usize = kani::any(); kani::assume(pos <= len);
    let n: usize = kani::any(); kani::assume(1 <= n && n <= 3);
    let tz = &bytes[..len];
    let p = mk(tz, pos, kani::any());
    let r = p.parse_number_with_upto_n_digits(n);
    let k = ndig(tz, pos, n);
    match r {
        Ok(v) => { assert!(k >= 1); assert!(p.pos() == pos + k); assert!(v == dec(tz, pos, k)); }
        Err(_) => { assert!(k == 0); assert!(p.pos() == pos); }
    }
}

//@harness c17_posix_fields
//@target shared::posix::Parser::{parse_hour_posix,parse_hour_ianav3plus,parse_minute,parse_second,parse_month,parse_week,parse_weekday,parse_posix_julian_day_no_leap,parse_posix_julian_day_with_leap} (src/shared/posix.rs)
//@prop C17
//@tier quick
//@timeout 600
//@doc every window of up to 4 bytes at every start position, each of the nine field parsers: Ok(v) <=> the digits present (hour 1-2 or 1-3, minute/second exactly 2, month 1-2, week/weekday exactly 1, Julian day 1-3) decode to a value in the field's range (0..=24, 0..=167, 0..=59, 0..=59, 1..=12, 1..=5, 0..=6, 1..=365, 0..=365); then v is that value and the position advanced by the digit count; no panic, no integer-conversion failure
#[kani::proof]
#[kani::unwind(5)]
fn c17_posix_fields() {
    let bytes: [u8; 6] = kani::any();
    let len: usize = kani::any(); kani::assume(len <= 6);
    let pos: usize = kani::any(); kani::assume(pos <= len);
    let tz = &bytes[..len];
    let which: u8 = kani::any(); kani::assume(which < 9);
    // (exact?, digits, lo, hi)
    let (exact, n, lo, hi): (bool, usize, i32, i32) = match which {
        0 => (false, 2, 0, 24), 1 => (false, 3, 0, 167), 2 => (true, 2, 0, 59), 3 => (true, 2, 0, 59), 4 => (false, 2, 1, 12),
        5 => (true, 1, 1, 5), 6 => (true, 1, 0, 6), 7 => (false, 3, 1, 365), _ => (false, 3, 0, 365),
    };
    let p = mk(tz, pos, which == 1 || kani::any());
    let r: Result<i32, Error> = match which {
        0 => p.parse_hour_posix().map(i32::from), 1 => p.parse_hour_ianav3plus().map(i32::from),
        2 => p.parse_minute().map(i32::from), 3 => p.parse_second().map(i32::from), 4 => p.parse_month().map(i32::from),
        5 => p.parse_week().map(i32::from), 6 => p.parse_weekday().map(i32::from),
        7 => p.parse_posix_julian_day_no_leap().map(i32::from), _ => p.parse_posix_julian_day_with_leap().map(i32::from),
    };
    assert!(p.pos() <= len);
    let k = ndig(tz, pos, n);
    let shape = if exact { k == n } else { k >= 1 };
    match r {
        Ok(v) => { assert!(shape); assert!(v == dec(tz, pos, k) && lo <= v && v <= hi); assert!(p.pos() == pos + k); }
        Err(_) => assert!(!shape || dec(tz, pos, k) < lo || dec(tz, pos, k) > hi),
    }
}

//@harness c17_posix_optional_sign
//@target shared::posix::Parser::parse_optional_sign (src/shared/posix.rs)
//@prop C17
//@tier quick
//@timeout 600
//@doc every window of up to 2 bytes at every start position: no sign byte (or end of input) => Ok(None), position unchanged; '+'/'-' followed by a byte => Ok(Some(1))/Ok(Some(-1)), position advanced by 1 and not at the end (so the caller may call byte()); '+'/'-' as last byte => Err; no panic
#[kani::proof]
fn c17_posix_optional_sign() {
    let bytes: [u8; 4] = kani::any();
    let len: usize = kani::any(); kani::assume(len <= 4);
    let pos: usize = kani::any(); kani::assume(pos <= len);
    let tz = &bytes[..len];
    let p = mk(tz, pos, kani::any());
    let signed = pos < len && (tz[pos] == b'+' || tz[pos] == b'-');
    match p.parse_optional_sign() {
        Ok(None) => { assert!(!signed && p.pos() == pos); }
        Ok(Some(s)) => { assert!(signed && p.pos() == pos + 1 && p.pos() < len); assert!(s == if tz[pos] == b'-' { -1 } else { 1 }); }
        Err(_) => assert!(signed && pos + 1 == len),
    }
}

/// digit value helpers that cannot themselves fail (used on paths where the parser already vouched for the shape)
fn dv(b: &[u8], at: usize) -> i32 { if at < b.len() { b[at].wrapping_sub(b'0') as i32 } else { 0 } }
fn dec2(b: &[u8], at: usize) -> i32 { dv(b, at) * 10 + dv(b, at + 1) }
fn deck(b: &[u8], at: usize, k: usize) -> i32 {
    if k == 1 { dv(b, at) } else if k == 2 { dec2(b, at) } else { dec2(b, at) * 10 + dv(b, at + 2) }
}
/// reference decoder for `[sign]h[h[h]][:mm[:ss]]`: (signed seconds, end position); only meaningful when the parser accepted
fn ref_hms(tz: &[u8], pos: usize, signed: bool, hdig: usize) -> (i32, i32, usize) {
    let len = tz.len();
    let mut q = pos;
    let mut sign = 1;
    if signed && q < len && (tz[q] == b'+' || tz[q] == b'-') { if tz[q] == b'-' { sign = -1; } q += 1; }
    let k = ndig(tz, q, hdig);
    let h = deck(tz, q, k); q += k;
    let (mut m, mut s) = (0, 0);
    if q < len && tz[q] == b':' {
        q += 1; m = dec2(tz, q); q += 2;
        if q < len && tz[q] == b':' { q += 1; s = dec2(tz, q); q += 2; }
    }
    (sign, h * 3600 + m * 60 + s, q)
}

//@harness c17_posix_time
//@target shared::posix::Parser::parse_posix_time (src/shared/posix.rs)
//@prop C17 C03
//@tier quick
//@timeout 900
//@doc both dialects (POSIX: hh 0..=24 unsigned; IANA v3+: optional sign, hhh 0..=167), every window of up to 11 bytes (sign + 3 + ":mm" + ":ss" + one lookahead byte) at start position 0 or 1: Ok(t) => t.second == sign*(h*3600+m*60+s) decoded from the text, the position is just after the last digit, and t is inside -604799..=604799 (PosixTime::wf; the `assert!` in the parser is never hit); otherwise Err; no panic, no overflow
#[kani::proof]
#[kani::unwind(5)]
fn c17_posix_time() {
    let bytes: [u8; 12] = kani::any();
    let len: usize = kani::any(); kani::assume(len <= 12);
    let pos: usize = if kani::any() { 1 } else { 0 }; kani::assume(pos <= len);
    let iana: bool = kani::any();
    let tz = &bytes[..len];
    let p = mk(tz, pos, iana);
    let r = p.parse_posix_time();
    assert!(p.pos() <= len);
    if let Ok(t) = r {
        let (sign, v, q) = ref_hms(tz, pos, iana, if iana { 3 } else { 2 });
        assert!(t.second == sign * v);
        assert!(p.pos() == q && q > pos);
        assert!(wf_time(&t));
        if !iana { assert!(0 <= t.second && t.second <= 89999); }
    }
}

//@harness c17_posix_offset
//@target shared::posix::Parser::parse_posix_offset (src/shared/posix.rs)
//@prop C17 C03
//@tier quick
//@timeout 900
//@doc every window of up to 10 bytes (sign + hh + ":mm" + ":ss" + one lookahead byte) at start position 0 or 1: Ok(o) => o.second == -sign*(h*3600+m*60+s) (POSIX offsets count west of Greenwich), the position is just after the last digit, |o| <= 89999 (so PosixOffset::wf and the parser's own `assert!` hold); no panic, no overflow
#[kani::proof]
#[kani::unwind(5)]
fn c17_posix_offset() {
    let bytes: [u8; 11] = kani::any();
    let len: usize = kani::any(); kani::assume(len <= 11);
    let pos: usize = if kani::any() { 1 } else { 0 }; kani::assume(pos <= len);
    let tz = &bytes[..len];
    let p = mk(tz, pos, kani::any());
    let r = p.parse_posix_offset();
    assert!(p.pos() <= len);
    if let Ok(o) = r {
        let (sign, v, q) = ref_hms(tz, pos, true, 2);
        assert!(o.second == -sign * v);
        assert!(p.pos() == q && q > pos);
        assert!(-89999 <= o.second && o.second <= 89999 && wf_offset(&o));
    }
}

//@harness c17_posix_date
//@target shared::posix::Parser::{parse_posix_date,parse_weekday_of_month} (src/shared/posix.rs)
//@prop C17 C03
//@tier quick
//@timeout 900
//@doc precondition: not at the end of the input (the callers guarantee it; checked in the glue harnesses).  Every window of 1..=8 bytes ("M12.5.6" + one lookahead byte) at start position 0 or 1: Ok(d) => d satisfies PosixDay::wf (Jn 1..=365, n 0..=365, Mm.w.d 1..=12 . 1..=5 . 0..=6) and the position advanced by at least 1 and not past the end; no panic
#[kani::proof]
#[kani::unwind(5)]
fn c17_posix_date() {
    let bytes: [u8; 9] = kani::any();
    let len: usize = kani::any(); kani::assume(len <= 9);
    let pos: usize = if kani::any() { 1 } else { 0 }; kani::assume(pos < len);
    let tz = &bytes[..len];
    let p = mk(tz, pos, kani::any());
    let r = p.parse_posix_date();
    assert!(p.pos() <= len && p.pos() >= pos);
    if let Ok(d) = r {
        assert!(wf_day(&d));
        assert!(p.pos() > pos);
        match d {
            PosixDay::JulianOne(n) => { let k = ndig(tz, pos + 1, 3); assert!(tz[pos] == b'J' && i32::from(n) == deck(tz, pos + 1, k) && p.pos() == pos + 1 + k); }
            PosixDay::JulianZero(n) => { let k = ndig(tz, pos, 3); assert!(i32::from(n) == deck(tz, pos, k) && p.pos() == pos + k); }
            PosixDay::WeekdayOfMonth { month, week, weekday } => {
                let k = ndig(tz, pos + 1, 2);
                assert!(tz[pos] == b'M' && i32::from(month) == deck(tz, pos + 1, k));
                assert!(tz[pos + 1 + k] == b'.' && i32::from(week) == dv(tz, pos + 2 + k) && tz[pos + 3 + k] == b'.' && i32::from(weekday) == dv(tz, pos + 4 + k));
                assert!(p.pos() == pos + 5 + k);
            }
        }
    }
}

//@harness c17_posix_datetime
//@target shared::posix::Parser::parse_posix_datetime (src/shared/posix.rs)
//@prop C17 C03
//@tier quick
//@timeout 1200
//@doc precondition: not at the end of the input.  Both dialects, every window of 1..=19 bytes ("M12.5.6" + "/" + "-167:59:59" + one lookahead byte) from start position 0: Ok(dt) => PosixDayTime::wf (date as in c17_posix_date, time inside -604799..=604799; default 02:00:00 when no "/time" follows), the position advanced by at least 1 and not past the end; no panic
#[kani::proof]
#[kani::unwind(5)]
fn c17_posix_datetime() {
    let bytes: [u8; 19] = kani::any();
    let len: usize = kani::any(); kani::assume(1 <= len && len <= 19);
    let tz = &bytes[..len];
    let p = mk(tz, 0, kani::any());
    let r = p.parse_posix_datetime();
    assert!(p.pos() <= len);
    if let Ok(dt) = r {
        assert!(wf_daytime(&dt));
        assert!(p.pos() >= 1);
        kani::cover!(dt.time.second == -604799);
        kani::cover!(dt.time.second == 7200 && p.pos() == 7);
    }
}

/// `core::str::from_utf8` replacement for the abbreviation paths: it ASSERTS (does not assume) that every byte is ASCII,
/// and for ASCII bytes the real function returns exactly this value; so the "technically impossible" invalid-UTF-8
/// branch is shown unreachable instead of being explored through the UTF-8 validator's table-driven loop
fn stub_from_utf8(v: &[u8]) -> Result<&str, core::str::Utf8Error> {
    let i: usize = kani::any();
    if i < v.len() { assert!(v[i] < 0x80); }
    Ok(unsafe { core::str::from_utf8_unchecked(v) })
}

fn abbrev_byte(b: u8, quoted: bool) -> bool { b.is_ascii_alphabetic() || (quoted && (b.is_ascii_digit() || b == b'+' || b == b'-')) }

//@harness c17_posix_abbreviation
//@target shared::posix::Parser::{parse_abbreviation,parse_unquoted_abbreviation,parse_quoted_abbreviation} (src/shared/posix.rs)
//@prop C17
//@tier quick
//@timeout 1200
//@doc the standard-time abbreviation (parser at position 0).  Precondition: non-empty input.  Every window of 1..=34 bytes ("<" + 30 name bytes + ">" + lookahead; longer names are cut off by the 31st name byte): Ok(a) => a has 3..=30 bytes, equals the name bytes of the input (all ASCII letters, or letters/digits/+/- when quoted), the position is just after the name (after the closing ">"), a.as_str() does not panic; a 31st name byte => Err; no panic
#[kani::proof]
#[kani::stub(core::str::from_utf8, stub_from_utf8)]
#[kani::unwind(33)]
fn c17_posix_abbreviation() {
    let bytes: [u8; 34] = kani::any();
    let len: usize = kani::any(); kani::assume(1 <= len && len <= 34);
    let tz = &bytes[..len];
    let p = mk(tz, 0, kani::any());
    let r = p.parse_abbreviation();
    assert!(p.pos() <= len);
    if let Ok(a) = r {
        assert!(wf_abbrev(&a));
        let quoted = tz[0] == b'<';
        let start = if quoted { 1 } else { 0 };
        let n = a.as_str().len();
        assert!(p.pos() == start + n + start);
        if quoted { assert!(tz[start + n] == b'>'); }
        let i: usize = kani::any(); kani::assume(i < n);
        assert!(a.as_str().as_bytes()[i] == tz[start + i] && abbrev_byte(tz[start + i], quoted));
        kani::cover!(n == 30 && quoted);
        kani::cover!(n == 3 && !quoted);
    }
}

//@harness c17_posix_abbreviation_anywhere
//@target shared::posix::Parser::{parse_abbreviation,parse_unquoted_abbreviation,parse_quoted_abbreviation} at an arbitrary start position (the DST abbreviation) (src/shared/posix.rs)
//@prop C17
//@tier quick
//@timeout 1200
//@bounded start position 0..=33, at most 34 bytes after it (input up to 67 bytes)
//@doc the contract the glue harnesses rely on for BOTH abbreviations.  Precondition: not at the end of the input.  Ok(a) => a has 3..=30 bytes, the position advanced by at least 3 and not past the end; Err otherwise; no panic.  On jiff 0.2.8 this FAILS: the "abbreviation too long" error message slices `self.tz[start..i]` with the loop counter i (= 30) instead of the end position, which panics when the abbreviation starts after byte 30 (finding: TimeZone::posix("AAAAAAAAAAAAAAAAAAAAAAAAAAAAAA0BBBBBBBBBBBBBBBBBBBBBBBBBBBBBBB"))
#[kani::proof]
#[kani::stub(core::str::from_utf8, stub_from_utf8)]
#[kani::unwind(33)]
fn c17_posix_abbreviation_anywhere() {
    let bytes: [u8; 67] = kani::any();
    let len: usize = kani::any(); kani::assume(len <= 67);
    let pos: usize = kani::any(); kani::assume(pos <= 33 && pos < len && len - pos <= 34);
    let tz = &bytes[..len];
    let p = mk(tz, pos, kani::any());
    let r = p.parse_abbreviation();
    assert!(p.pos() <= len);
    if let Ok(a) = r {
        assert!(wf_abbrev(&a));
        assert!(p.pos() >= pos + 3);
    }
}

// ------------------------------------------------------------------------------------------------ (2) glue
// Contract stubs.  Each one ASSERTS the callee's precondition (not at the end of the input, where the real function
// would index out of bounds), then nondeterministically succeeds or fails, moving the position forward by any amount
// the proved contract allows and returning any value the proved contract allows.
fn adv(p: &Parser<'_>, min: usize) {
    let k: usize = kani::any();
    kani::assume(min <= k && k <= p.tz.len() - p.pos());
    p.pos.set(p.pos() + k);
}
fn any_wf_day() -> PosixDay {
    let which: u8 = kani::any();
    let n: i16 = kani::any();
    let (m, w, d): (i8, i8, i8) = (kani::any(), kani::any(), kani::any());
    let day = if which == 0 { PosixDay::JulianOne(n) } else if which == 1 { PosixDay::JulianZero(n) } else { PosixDay::WeekdayOfMonth { month: m, week: w, weekday: d } };
    kani::assume(wf_day(&day));
    day
}
fn any_wf_daytime() -> PosixDayTime {
    let t: i32 = kani::any();
    kani::assume(-604799 <= t && t <= 604799);
    PosixDayTime { date: any_wf_day(), time: PosixTime { second: t } }
}
/// contract of c17_posix_abbreviation / c17_posix_abbreviation_anywhere
fn stub_abbreviation<'s>(p: &Parser<'s>) -> Result<Abbreviation, Error> where 's: 's {
    assert!(p.pos() < p.tz.len(), "parse_abbreviation called at the end of the input");
    if kani::any() { adv(p, 3); Ok(Abbreviation::new("AAA").unwrap()) } else { adv(p, 0); Err(err!("stub")) }
}
/// contract of c17_posix_offset (no precondition: the real function copes with the end of the input)
fn stub_offset<'s>(p: &Parser<'s>) -> Result<PosixOffset, Error> where 's: 's {
    if kani::any() {
        adv(p, 1);
        let s: i32 = kani::any(); kani::assume(-89999 <= s && s <= 89999);
        Ok(PosixOffset { second: s })
    } else { adv(p, 0); Err(err!("stub")) }
}
/// contract of c17_posix_datetime
fn stub_datetime<'s>(p: &Parser<'s>) -> Result<PosixDayTime, Error> where 's: 's {
    assert!(p.pos() < p.tz.len(), "parse_posix_datetime called at the end of the input");
    if kani::any() { adv(p, 1); Ok(any_wf_daytime()) } else { adv(p, 0); Err(err!("stub")) }
}
/// contract of c17_posix_rule
fn stub_rule<'s>(p: &Parser<'s>) -> Result<PosixRule, Error> where 's: 's {
    assert!(p.pos() < p.tz.len(), "parse_rule called at the end of the input");
    if kani::any() { adv(p, 3); Ok(PosixRule { start: any_wf_daytime(), end: any_wf_daytime() }) } else { adv(p, 0); Err(err!("stub")) }
}
/// contract of c17_posix_dst
fn stub_dst<'s>(p: &Parser<'s>, std_offset: &PosixOffset) -> Result<PosixDst<Abbreviation>, Error> where 's: 's {
    assert!(p.pos() < p.tz.len(), "parse_posix_dst called at the end of the input");
    assert!(-89999 <= std_offset.second && std_offset.second <= 89999, "parse_posix_dst called with a standard offset outside what parse_posix_offset returns");
    if kani::any() {
        adv(p, 7);
        let s: i32 = kani::any(); kani::assume(-89999 <= s && s <= 93599);
        let r = PosixRule { start: any_wf_daytime(), end: any_wf_daytime() };
        Ok(PosixDst { abbrev: Abbreviation::new("AAA").unwrap(), offset: PosixOffset { second: s }, rule: r })
    } else { adv(p, 0); Err(err!("stub")) }
}

//@harness c17_posix_rule
//@target shared::posix::Parser::parse_rule (src/shared/posix.rs)
//@prop C17
//@tier quick
//@timeout 600
//@doc glue, callee parse_posix_datetime replaced by its contract stub (c17_posix_datetime).  Precondition: not at the end of the input.  Every buffer of up to 6 bytes: the callee is never called at the end of the input; Ok(r) => both day-times satisfy PosixDayTime::wf and the position advanced by at least 3, not past the end; no panic
#[kani::proof]
#[kani::stub(crate::shared::posix::Parser::parse_posix_datetime, stub_datetime)]
fn c17_posix_rule() {
    let bytes: [u8; 6] = kani::any();
    let len: usize = kani::any(); kani::assume(len <= 6);
    let pos: usize = if kani::any() { 1 } else { 0 }; kani::assume(pos < len);
    let p = mk(&bytes[..len], pos, kani::any());
    let r = p.parse_rule();
    assert!(p.pos() <= len);
    if let Ok(r) = r { assert!(wf_daytime(&r.start) && wf_daytime(&r.end) && p.pos() >= pos + 3); }
}

//@harness c17_posix_dst
//@target shared::posix::Parser::parse_posix_dst (src/shared/posix.rs)
//@prop C17
//@tier quick
//@timeout 600
//@doc glue, callees parse_abbreviation / parse_posix_offset / parse_rule replaced by their contract stubs.  Precondition: not at the end of the input, standard offset inside -89999..=89999 (what parse_posix_offset returns).  Every buffer of up to 9 bytes: no callee is called at the end of the input; Ok(d) => PosixDst::wf: the DST offset (explicit, or standard + 1 h) is inside -89999..=93599 and the rule is well-formed; the position advanced by at least 7; no panic, no overflow in `std + 3600`
#[kani::proof]
#[kani::stub(crate::shared::posix::Parser::parse_abbreviation, stub_abbreviation)]
#[kani::stub(crate::shared::posix::Parser::parse_posix_offset, stub_offset)]
#[kani::stub(crate::shared::posix::Parser::parse_rule, stub_rule)]
fn c17_posix_dst() {
    let bytes: [u8; 9] = kani::any();
    let len: usize = kani::any(); kani::assume(len <= 9);
    let pos: usize = if kani::any() { 1 } else { 0 }; kani::assume(pos < len);
    let std: i32 = kani::any(); kani::assume(-89999 <= std && std <= 89999);
    let p = mk(&bytes[..len], pos, kani::any());
    let r = p.parse_posix_dst(&PosixOffset { second: std });
    assert!(p.pos() <= len);
    if let Ok(d) = r {
        assert!(wf_dst(&d) && -89999 <= d.offset.second && d.offset.second <= 93599);
        assert!(p.pos() >= pos + 7);
        kani::cover!(d.offset.second == 93599);
    }
}

//@harness c17_posix_time_zone
//@target shared::posix::Parser::{parse,parse_prefix,parse_posix_time_zone,remaining} (src/shared/posix.rs)
//@prop C17
//@tier quick
//@timeout 600
//@doc glue, callees parse_abbreviation / parse_posix_offset / parse_posix_dst replaced by their contract stubs.  Precondition: NON-EMPTY input (the empty input is c17_posix_parse_empty).  Every buffer of 1..=12 bytes, both entry points (parse, parse_prefix): no callee is called at the end of the input or with a standard offset outside -89999..=89999; Ok(tz) => PosixTimeZone::wf (the precondition of every lookup in the Verus unit posix); parse_prefix returns exactly the unread rest; parse accepts only when nothing is left; no panic
#[kani::proof]
#[kani::stub(crate::shared::posix::Parser::parse_abbreviation, stub_abbreviation)]
#[kani::stub(crate::shared::posix::Parser::parse_posix_offset, stub_offset)]
#[kani::stub(crate::shared::posix::Parser::parse_posix_dst, stub_dst)]
fn c17_posix_time_zone() {
    let bytes: [u8; 12] = kani::any();
    let len: usize = kani::any(); kani::assume(1 <= len && len <= 12);
    let p = mk(&bytes[..len], 0, kani::any());
    if kani::any() {
        let r = p.parse();
        assert!(p.pos() <= len);
        if let Ok(tz) = r { assert!(wf_tz(&tz) && p.pos() == len); kani::cover!(tz.dst.is_some()); kani::cover!(tz.dst.is_none()); }
    } else {
        let r = p.parse_prefix();
        assert!(p.pos() <= len);
        if let Ok((tz, rest)) = r { assert!(wf_tz(&tz) && rest.len() == len - p.pos() && p.pos() >= 4); }
    }
}

//@harness c17_posix_parse_empty
//@target shared::posix::Parser::parse on the empty string (= PosixTimeZone::parse(b""), TimeZone::posix("")) (src/shared/posix.rs)
//@prop C17
//@tier quick
//@timeout 300
//@doc the empty TZ string is answered with Err.  On jiff 0.2.8 this FAILS: parse_abbreviation reads `self.tz[0]` without checking for the end of the input (finding: TimeZone::posix("") panics with "index out of bounds: the len is 0 but the index is 0")
#[kani::proof]
#[kani::stub(core::str::from_utf8, stub_from_utf8)]
#[kani::unwind(33)]
fn c17_posix_parse_empty() {
    let empty: [u8; 0] = [];
    let p = Parser { ianav3plus: true, ..Parser::new(&empty[..]) };
    assert!(p.parse().is_err());
}

// ------------------------------------------------------------------------------------------------ (3) whole parser, bounded

fn whole(tz: &[u8]) {
    let len = tz.len();
    let p = Parser { ianav3plus: true, ..Parser::new(tz) };   // = PosixTimeZone::parse
    match p.parse() {
        Err(_) => {}
        Ok(z) => {
            assert!(wf_tz(&z) && wf_abbrev(&z.std_abbrev));
            assert!(-89999 <= z.std_offset.second && z.std_offset.second <= 89999);
            if let Some(ref d) = z.dst { assert!(wf_abbrev(&d.abbrev)); }
            assert!(len >= 4);
            kani::cover!(z.dst.is_none());
            kani::cover!(z.dst.is_some());
        }
    }
}

//@harness c17_posix_parse_upto_24
//@target shared::posix::Parser::parse with ianav3plus (= PosixTimeZone::parse, TimeZone::posix, the TZif footer) (src/shared/posix.rs)
//@prop C17
//@tier thorough
//@timeout 1500
//@bounded every byte string of 1..=24 bytes (the empty string is c17_posix_parse_empty); only `core::str::from_utf8` is replaced (by a version that asserts the bytes are ASCII)
//@doc no stubs for parser code: the whole POSIX TZ parser returns Ok or Err without panicking; Ok(tz) => PosixTimeZone::wf (standard offset inside -89999..=89999, DST offset inside -93599..=93599, rule day specs and times in range), both abbreviations have 3..=30 bytes.  Ok is reachable inside the bound both without DST ("AAA0", 4 bytes) and with a DST rule ("AAA0BBB,0,0", 11 bytes; "AAA0BBB,M3.2.0,M11.1.0" has 23)
#[kani::proof]
#[kani::stub(core::str::from_utf8, stub_from_utf8)]
#[kani::unwind(26)]
fn c17_posix_parse_upto_24() {
    let bytes: [u8; 24] = kani::any();
    let len: usize = kani::any(); kani::assume(1 <= len && len <= 24);
    whole(&bytes[..len]);
}

//@harness c17_posix_parse_upto_60
//@target shared::posix::Parser::parse with ianav3plus (= PosixTimeZone::parse, TimeZone::posix, the TZif footer) (src/shared/posix.rs)
//@prop C17
//@tier thorough
//@timeout 2400
//@bounded every byte string of 1..=60 bytes (from 62 bytes on the parser panics, see c17_posix_abbreviation_anywhere); only `core::str::from_utf8` is replaced (by a version that asserts the bytes are ASCII)
//@doc as c17_posix_parse_upto_24, for every byte string of up to 60 bytes
#[kani::proof]
#[kani::stub(core::str::from_utf8, stub_from_utf8)]
#[kani::unwind(33)]
fn c17_posix_parse_upto_60() {
    let bytes: [u8; 60] = kani::any();
    let len: usize = kani::any(); kani::assume(1 <= len && len <= 60);
    whole(&bytes[..len]);
}
