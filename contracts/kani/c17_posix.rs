//@inject src/shared/posix.rs
//! C17: the POSIX TZ string parser (`Parser` in src/shared/posix.rs) is total and what it accepts satisfies the
//! well-formedness that the lookup code assumes (the `wf` predicates of the Verus unit posix: PosixOffset in
//! -93599..=93599, PosixTime in -604799..=604799, PosixDay J 1..=365 / n 0..=365 / M 1..=12 . 1..=5 . 0..=6).
//!
//! Layout: (1) leaf parsers, decided for every input they can look at.  Each leaf reads the input only through
//! `byte()/maybe_byte()/is_done()/bump()` at the current position and looks at most K bytes ahead (K is fixed by the
//! digit counts), so its behaviour on an arbitrary input is its behaviour on the window `tz[pos..pos+K+1]`; the
//! harness takes every window of up to K+1 bytes at every start position of a buffer that is 2 bytes longer.
//! (2) glue parsers (rule, DST part, whole zone), decided with the sub-parsers replaced by nondeterministic stubs that
//! implement exactly the contract proved in (1) (assume/guarantee; the stub asserts the callee's precondition).
//! (3) the whole parser on every byte string up to a stated length (bounded stand-in, never counted as proved).
//!
//! Built without `alloc`: `Abbreviation` is the fixed-capacity ArrayStr<30> and `Error::from_args` keeps only a static
//! message, so no error-formatting stub is needed (measured: the formatter is not even reached).
use super::*;
use core::cell::Cell;

fn mk<'s>(tz: &'s [u8], pos: usize, iana: bool) -> Parser<'s> {
    Parser { tz, pos: Cell::new(pos), ianav3plus: iana }
}
fn is_dig(b: u8) -> bool { b'0' <= b && b <= b'9' }
/// value of the `n` ASCII digits at `at` (caller checked that they are digits)
fn dec(b: &[u8], at: usize, n: usize) -> i32 {
    let mut v = 0i32;
    let mut i = 0;
    while i < n { v = v * 10 + (b[at + i] - b'0') as i32; i += 1; }
    v
}
/// number of leading digits in b[at..], at most `max`
fn ndig(b: &[u8], at: usize, max: usize) -> usize {
    let mut k = 0;
    while k < max && at + k < b.len() && is_dig(b[at + k]) { k += 1; }
    k
}

// the `wf` predicates of /verif/contracts/verus/posix.vrs, transcribed
fn wf_offset(o: &PosixOffset) -> bool { -93599 <= o.second && o.second <= 93599 }
fn wf_time(t: &PosixTime) -> bool { -604799 <= t.second && t.second <= 604799 }
fn wf_day(d: &PosixDay) -> bool {
    match *d {
        PosixDay::JulianOne(n) => 1 <= n && n <= 365,
        PosixDay::JulianZero(n) => 0 <= n && n <= 365,
        PosixDay::WeekdayOfMonth { month, week, weekday } => 1 <= month && month <= 12 && 1 <= week && week <= 5 && 0 <= weekday && weekday <= 6,
    }
}
fn wf_daytime(d: &PosixDayTime) -> bool { wf_day(&d.date) && wf_time(&d.time) }
fn wf_dst(d: &PosixDst<Abbreviation>) -> bool { wf_offset(&d.offset) && wf_daytime(&d.rule.start) && wf_daytime(&d.rule.end) }
fn wf_tz(t: &PosixTimeZone<Abbreviation>) -> bool {
    wf_offset(&t.std_offset) && match t.dst { Some(ref d) => wf_dst(d), None => true }
}
/// what the abbreviation parsers promise: 3..=30 bytes (so `as_str()`/`as_ref()` cannot panic on the length)
fn wf_abbrev(a: &Abbreviation) -> bool { let n = a.as_str().len(); 3 <= n && n <= 30 }

// ------------------------------------------------------------------------------------------------ (1) leaves

//@harness c17_posix_number_exact
//@target shared::posix::Parser::parse_number_with_exactly_n_digits (src/shared/posix.rs)
//@prop C17
//@tier quick
//@timeout 600
//@doc for n in 1..=3 (call sites use 1 and 2), every window of up to n+1 bytes at every start position: Ok(v) <=> the next n bytes exist and are ASCII digits; then v is their decimal value and the position advanced by exactly n; Err otherwise; the position never passes the end; no panic
#[kani::proof]
#[kani::unwind(5)]
fn c17_posix_number_exact() {
    let bytes: [u8; 6] = kani::any();
    let len: usize = kani::any(); kani::assume(len <= 6);
    let pos: usize = kani::any(); kani::assume(pos <= len);
    let n: usize = kani::any(); kani::assume(1 <= n && n <= 3);
    let tz = &bytes[..len];
    let p = mk(tz, pos, kani::any());
    let r = p.parse_number_with_exactly_n_digits(n);
    assert!(p.pos() <= len);
    let all = pos + n <= len && ndig(tz, pos, n) == n;
    match r {
        Ok(v) => { assert!(all); assert!(p.pos() == pos + n); assert!(v == dec(tz, pos, n)); }
        Err(_) => assert!(!all),
    }
}

//@harness c17_posix_number_upto
//@target shared::posix::Parser::parse_number_with_upto_n_digits (src/shared/posix.rs)
//@prop C17
//@tier quick
//@timeout 600
//@doc for n in 1..=3 (call sites use 2 and 3), every window of up to n+1 bytes at every start position: with k = number of leading ASCII digits (at most n), Ok(v) <=> k >= 1; then v is the value of those k digits and the position advanced by exactly k; no panic
#[kani::proof]
#[kani::unwind(5)]
fn c17_posix_number_upto() {
    let bytes: [u8; 6] = kani::any();
    let len: usize = kani::any(); kani::assume(len <= 6);
    let pos: usize = kani::any(); kani::assume(pos <= len);
    let n: usize = kani::any(); kani::assume(1 <= n && n <= 3);
    let tz = &bytes[..len];
    let p = mk(tz, pos, kani::any());
    let r = p.parse_number_with_upto_n_digits(n);
    let k = ndig(tz, pos, n);
    match r {
        Ok(v) => { assert!(k >= 1); assert!(p.pos() == pos + k); assert!(v == dec(tz, pos, k)); }
        Err(_) => { assert!(k == 0); assert!(p.pos() == pos); }
    }
}

//@harness c17_posix_fields
//@target shared::posix::Parser::{parse_hour_posix,parse_hour_ianav3plus,parse_minute,parse_second,parse_month,parse_week,parse_weekday,parse_posix_julian_day_no_leap,parse_posix_julian_day_with_leap} (src/shared/posix.rs)
//@prop C17
//@tier quick
//@timeout 600
//@doc every window of up to 4 bytes at every start position, each of the nine field parsers: Ok(v) <=> the digits present (hour 1-2 or 1-3, minute/second exactly 2, month 1-2, week/weekday exactly 1, Julian day 1-3) decode to a value in the field's range (0..=24, 0..=167, 0..=59, 0..=59, 1..=12, 1..=5, 0..=6, 1..=365, 0..=365); then v is that value and the position advanced by the digit count; no panic, no integer-conversion failure
#[kani::proof]
#[kani::unwind(5)]
fn c17_posix_fields() {
    let bytes: [u8; 6] = kani::any();
    let len: usize = kani::any(); kani::assume(len <= 6);
    let pos: usize = kani::any(); kani::assume(pos <= len);
    let tz = &bytes[..len];
    let which: u8 = kani::any(); kani::assume(which < 9);
    // (exact?, digits, lo, hi)
    let (exact, n, lo, hi): (bool, usize, i32, i32) = match which {
        0 => (false, 2, 0, 24), 1 => (false, 3, 0, 167), 2 => (true, 2, 0, 59), 3 => (true, 2, 0, 59), 4 => (false, 2, 1, 12),
        5 => (true, 1, 1, 5), 6 => (true, 1, 0, 6), 7 => (false, 3, 1, 365), _ => (false, 3, 0, 365),
    };
    let p = mk(tz, pos, which == 1 || kani::any());
    let r: Result<i32, Error> = match which {
        0 => p.parse_hour_posix().map(i32::from), 1 => p.parse_hour_ianav3plus().map(i32::from),
        2 => p.parse_minute().map(i32::from), 3 => p.parse_second().map(i32::from), 4 => p.parse_month().map(i32::from),
        5 => p.parse_week().map(i32::from), 6 => p.parse_weekday().map(i32::from),
        7 => p.parse_posix_julian_day_no_leap().map(i32::from), _ => p.parse_posix_julian_day_with_leap().map(i32::from),
    };
    assert!(p.pos() <= len);
    let k = ndig(tz, pos, n);
    let shape = if exact { k == n } else { k >= 1 };
    match r {
        Ok(v) => { assert!(shape); assert!(v == dec(tz, pos, k) && lo <= v && v <= hi); assert!(p.pos() == pos + k); }
        Err(_) => assert!(!shape || dec(tz, pos, k) < lo || dec(tz, pos, k) > hi),
    }
}

//@harness c17_posix_optional_sign
//@target shared::posix::Parser::parse_optional_sign (src/shared/posix.rs)
//@prop C17
//@tier quick
//@timeout 600
//@doc every window of up to 2 bytes at every start position: no sign byte (or end of input) => Ok(None), position unchanged; '+'/'-' followed by a byte => Ok(Some(1))/Ok(Some(-1)), position advanced by 1 and not at the end (so the caller may call byte()); '+'/'-' as last byte => Err; no panic
#[kani::proof]
fn c17_posix_optional_sign() {
    let bytes: [u8; 4] = kani::any();
    let len: usize = kani::any(); kani::assume(len <= 4);
    let pos: usize = kani::any(); kani::assume(pos <= len);
    let tz = &bytes[..len];
    let p = mk(tz, pos, kani::any());
    let signed = pos < len && (tz[pos] == b'+' || tz[pos] == b'-');
    match p.parse_optional_sign() {
        Ok(None) => { assert!(!signed && p.pos() == pos); }
        Ok(Some(s)) => { assert!(signed && p.pos() == pos + 1 && p.pos() < len); assert!(s == if tz[pos] == b'-' { -1 } else { 1 }); }
        Err(_) => assert!(signed && pos + 1 == len),
    }
}
