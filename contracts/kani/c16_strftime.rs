//@inject src/fmt/strtime/format.rs
//! C16: numeric strftime output against the calendar fact it names.  The real formatter code writes into a
//! fixed buffer; the digit loops are bounded by the field width (unwinding complete for these widths).
use super::*;

pub struct Buf { pub b: [u8; 16], pub n: usize, pub overflow: bool }
impl Buf { pub fn new() -> Buf { Buf { b: [0; 16], n: 0, overflow: false } } }
impl crate::fmt::Write for Buf {
    fn write_str(&mut self, s: &str) -> Result<(), Error> {
        let bytes = s.as_bytes();
        let mut i = 0;
        while i < bytes.len() {
            if self.n >= 16 { self.overflow = true; return Ok(()); }
            self.b[self.n] = bytes[i];
            self.n += 1;
            i += 1;
        }
        Ok(())
    }
}
fn d2(b: &[u8; 16], at: usize) -> i32 {
    // value of two ASCII digits, or -1 if they are not digits
    let (x, y) = (b[at], b[at + 1]);
    if x < b'0' || x > b'9' || y < b'0' || y > b'9' { return -1; }
    ((x - b'0') as i32) * 10 + (y - b'0') as i32
}

//@harness c16_write_offset
//@target fmt::strtime::format::write_offset (%z, %:z, %Q without IANA name) (src/fmt/strtime/format.rs)
//@prop C16 C09
//@tier quick
//@timeout 600
//@doc for every offset in -93599..=93599 and both colon settings: the text is sign, HH, [:]MM, and [:]SS iff seconds != 0; the sign is '-' exactly for negative offsets (also below one hour); HH*3600+MM*60+SS == |offset|
#[kani::proof]
#[kani::unwind(18)]
fn c16_write_offset() {
    let s: i32 = kani::any();
    kani::assume(-93599 <= s && s <= 93599);
    let colon: bool = kani::any();
    let off = Offset::from_seconds_unchecked(s);
    let mut w = Buf::new();
    let r = write_offset(off, colon, &mut w);
    assert!(r.is_ok() && !w.overflow);
    let a = if s < 0 { -s } else { s };
    let (h, m, sec) = (a / 3600, (a / 60) % 60, a % 60);
    assert!(w.b[0] == if s < 0 { b'-' } else { b'+' });
    assert!(d2(&w.b, 1) == h);
    let mut at = 3;
    if colon { assert!(w.b[at] == b':'); at += 1; }
    assert!(d2(&w.b, at) == m);
    at += 2;
    if sec != 0 {
        if colon { assert!(w.b[at] == b':'); at += 1; }
        assert!(d2(&w.b, at) == sec);
        at += 2;
    }
    assert!(w.n == at);
}

// ---- calendar-fact specifiers: real Formatter methods on a symbolic date; the Neri-Schneider callee is the
// axiomatised memo stub (contract proved by Verus, unit itime)
use crate::verif_kani::memo::*;
use crate::verif_kani::spec::*;
use crate::shared::util::itime::{IDate, IEpochDay};

fn num(b: &[u8; 16], n: usize) -> i64 {
    // decimal value of the first n bytes (all must be digits), else -1
    let mut v: i64 = 0;
    let mut i = 0;
    while i < 16 {
        if i < n {
            let c = b[i];
            if c < b'0' || c > b'9' { return -1; }
            v = v * 10 + (c - b'0') as i64;
        }
        i += 1;
    }
    v
}
const NOEXT: Extension = Extension { flag: None, width: None };

//@harness c16_numeric_calendar_facts
//@target fmt::strtime::format::Formatter::{fmt_day_of_year,fmt_week_sun,fmt_week_mon,fmt_weekday_mon,fmt_weekday_sun} (%j %U %W %u %w)
//@prop C16
//@tier quick
//@timeout 900
//@doc for every date: %j prints the 3-digit ordinal day; %U = (yday + 7 - wday_sun)/7 and %W = (yday + 7 - wday_mon)/7 as 2 digits (C library definitions, yday 0-based); %u is 1..7 with Monday = 1; %w is 0..6 with Sunday = 0
#[kani::proof]
#[kani::stub(IDate::to_epoch_day, memo_to_epoch_day)]
#[kani::unwind(18)]
fn c16_numeric_calendar_facts() {
    let dt = any_date();
    let (y, m, d) = ymd(dt);
    let tm = BrokenDownTime::from(dt);
    let yday = doy(y, m, d) - 1;
    let iso = wd(e_of(y, m, d));          // 1 = Monday .. 7 = Sunday
    let wday_sun = iso % 7;               // 0 = Sunday
    let wday_mon = iso - 1;               // 0 = Monday
    let which: u8 = kani::any();
    kani::assume(which < 5);
    let mut w = Buf::new();
    let r = {
        let mut f = Formatter { fmt: b"", tm: &tm, wtr: &mut w };
        match which {
            0 => f.fmt_day_of_year(NOEXT),
            1 => f.fmt_week_sun(NOEXT),
            2 => f.fmt_week_mon(NOEXT),
            3 => f.fmt_weekday_mon(NOEXT),
            _ => f.fmt_weekday_sun(NOEXT),
        }
    };
    assert!(r.is_ok() && !w.overflow);
    match which {
        0 => assert!(w.n == 3 && num(&w.b, 3) == yday + 1),
        1 => assert!(w.n == 2 && num(&w.b, 2) == (yday + 7 - wday_sun) / 7),
        2 => assert!(w.n == 2 && num(&w.b, 2) == (yday + 7 - wday_mon) / 7),
        3 => assert!(w.n == 1 && num(&w.b, 1) == iso),
        _ => assert!(w.n == 1 && num(&w.b, 1) == wday_sun),
    }
}
