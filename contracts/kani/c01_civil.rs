//! C01: civil::Date wrappers over the (Verus-proved) itime core, on the real ranged-integer code.
use super::memo::*;
use super::spec::*;
use crate::civil::{Date, Weekday};
use crate::shared::util::itime::{IDate, IEpochDay};

//@harness c01_date_new
//@target civil::Date::new (src/civil/date.rs)
//@prop C01 C05
//@tier quick
//@doc for every (i16,i8,i8): Date::new is Ok iff the triple is a Gregorian date in -9999..=9999, and the fields are kept
#[kani::proof]
fn c01_date_new() {
    let y: i16 = kani::any();
    let m: i8 = kani::any();
    let d: i8 = kani::any();
    let r = Date::new(y, m, d);
    assert!(r.is_ok() == valid(y as i64, m as i64, d as i64));
    if let Ok(dt) = r {
        assert!(dt.year() == y && dt.month() == m && dt.day() == d);
    }
}

//@harness c01_date_tomorrow
//@target civil::Date::tomorrow (src/civil/date.rs)
//@prop C01 C05
//@tier quick
//@doc for every date: tomorrow() is the Gregorian successor; Err exactly at 9999-12-31
#[kani::proof]
fn c01_date_tomorrow() {
    let dt = any_date();
    let (y, m, d) = ymd(dt);
    let r = dt.tomorrow();
    assert!(r.is_ok() == !(y == 9999 && m == 12 && d == 31));
    if let Ok(n) = r {
        assert!(ymd(n) == next(y, m, d));
    }
}

//@harness c01_date_yesterday
//@target civil::Date::yesterday (src/civil/date.rs)
//@prop C01 C05
//@tier quick
//@doc for every date: yesterday() is the Gregorian predecessor; Err exactly at -9999-01-01
#[kani::proof]
fn c01_date_yesterday() {
    let dt = any_date();
    let (y, m, d) = ymd(dt);
    let r = dt.yesterday();
    assert!(r.is_ok() == !(y == -9999 && m == 1 && d == 1));
    if let Ok(p) = r {
        assert!(ymd(p) == prev(y, m, d));
    }
}

//@harness c01_date_facts
//@target civil::Date::{days_in_month,in_leap_year,day_of_year,day_of_year_no_leap,first_of_month,last_of_month,first_of_year,last_of_year} (src/civil/date.rs)
//@prop C01
//@tier quick
//@doc for every date: month length, leap year, ordinal day (both variants) and first/last of month/year equal the Gregorian definitions
#[kani::proof]
fn c01_date_facts() {
    let dt = any_date();
    let (y, m, d) = ymd(dt);
    assert!(dt.days_in_month() as i64 == dim(y, m));
    assert!(dt.in_leap_year() == is_leap(y));
    assert!(dt.day_of_year() as i64 == doy(y, m, d));
    let nl = dt.day_of_year_no_leap();
    if is_leap(y) && m == 2 && d == 29 {
        assert!(nl.is_none());
    } else {
        let expect = doy(y, m, d) - if is_leap(y) && m > 2 { 1 } else { 0 };
        assert!(nl == Some(expect as i16));
    }
    assert!(ymd(dt.first_of_month()) == (y, m, 1));
    assert!(ymd(dt.last_of_month()) == (y, m, dim(y, m)));
    assert!(ymd(dt.first_of_year()) == (y, 1, 1));
    assert!(ymd(dt.last_of_year()) == (y, 12, 31));
}

//@harness c01_date_weekday
//@target civil::Date::weekday (src/civil/date.rs), IEpochDay::weekday
//@prop C01
//@tier quick
//@doc for every date: weekday() is ((E(date)+3) mod 7)+1 with Monday=1, E the (Verus-proved) day count
#[kani::proof]
#[kani::stub(IDate::to_epoch_day, memo_to_epoch_day)]
#[kani::unwind(6)]
fn c01_date_weekday() {
    let dt = any_date();
    let (y, m, d) = ymd(dt);
    let w = dt.weekday();
    assert!(wnum(w) == wd(e_of(y, m, d)));
    assert!(w.to_monday_one_offset() as i64 == wnum(w));
    assert!(w.to_monday_zero_offset() as i64 == wnum(w) - 1);
    assert!(w.to_sunday_zero_offset() as i64 == wnum(w) % 7);
    assert!(w.to_sunday_one_offset() as i64 == wnum(w) % 7 + 1);
}

//@harness c01_date_epoch_day_roundtrip
//@target civil::Date::{to_unix_epoch_day,from_unix_epoch_day,until_days_ranged} (src/civil/date.rs)
//@prop C01 C07
//@tier quick
//@doc for every pair of dates: the ranged wrappers pass E and D through unchanged, date->day->date is the identity and until_days_ranged == E(b)-E(a)
#[kani::proof]
#[kani::stub(IDate::to_epoch_day, memo_to_epoch_day)]
#[kani::stub(IEpochDay::to_date, memo_to_date)]
#[kani::unwind(6)]
fn c01_date_epoch_day_roundtrip() {
    let a = any_date();
    let b = any_date();
    let (y, m, d) = ymd(a);
    let ea = a.to_unix_epoch_day();
    assert!(ea.get() as i64 == e_of(y, m, d));
    assert!(Date::from_unix_epoch_day(ea) == a);
    let (y2, m2, d2) = ymd(b);
    assert!(a.until_days_ranged(b).get() as i64 == e_of(y2, m2, d2) - e_of(y, m, d));
}

//@harness c01_date_nth_weekday_of_month
//@target civil::Date::nth_weekday_of_month (src/civil/date.rs)
//@prop C01 C05
//@tier quick
//@doc the ranged wrapper returns exactly what the (Verus-proved) IDate::nth_weekday_of_month returns, Ok/Err included
#[kani::proof]
#[kani::stub(IDate::to_epoch_day, memo_to_epoch_day)]
#[kani::unwind(6)]
fn c01_date_nth_weekday_of_month() {
    let dt = any_date();
    let (y, m, d) = ymd(dt);
    let w = any_weekday();
    let nth: i8 = kani::any();
    let r = dt.nth_weekday_of_month(nth, w);
    let ir = dt.to_idate_const().nth_weekday_of_month(nth, w.to_iweekday());
    assert!(r.is_ok() == ir.is_ok());
    if let (Ok(a), Ok(b)) = (r, ir) {
        assert!(ymd(a) == (b.year as i64, b.month as i64, b.day as i64));
        assert!(valid(b.year as i64, b.month as i64, b.day as i64));
    }
}
