//@inject src/fmt/temporal/parser.rs
//! C09: civil Date / Time / DateTime text round trip on the real Temporal printer and parser.
//! Injected into parser.rs (private parse_* stages reachable); the printer's `pub(super)` methods are visible from
//! here as well (descendant of fmt::temporal).
//!
//! Reference semantics (`ref_*` below) are written digit by digit from RFC 3339 section 5.6 / ISO 8601
//! (`date-fullyear "-" date-month "-" date-mday`, `time-hour ":" time-minute ":" time-second [ "." 1*DIGIT ]`)
//! plus the ISO 8601 / ECMA-262 expanded year (sign and six digits), with no call into jiff.
//!
//! Structure (all full-domain, nothing bounded):
//!   printer        c09_print_date, c09_print_time                      decode . print = id
//!   parser stages  c09_parse_date_spec (all strings <= 32 bytes), c09_parse_time_spec (all strings <= 18 bytes)
//!                                                                    real stage = reference prefix reader (CONTRACTS)
//!   public parser  c09_parse_date_10 / _13 (all real code), c09_parse_time (glue + contracts)
//!                                                                    parse = decode on the printer's shapes
//!   round trips    c09_roundtrip_date (all real code), c09_roundtrip_time, c09_roundtrip_datetime (glue + contracts)
//!                                                                    parse(print(x)) = Ok(x)
//! Two kinds of stubs, neither adds a trusted assumption:
//!   * self-checking "unreachable_*" stubs assert!(false) when called: a passing harness PROVES that the stage is never
//!     reached for its inputs.  Needed because CBMC's symbolic execution cannot see that the unparsed rest is empty and
//!     otherwise unrolls the time / offset / RFC 9557 annotation parsers (> 20 min of symbolic execution, measured).
//!   * contract stubs (date_spec_contract, time_spec_contract, datetime_attempt_fails) ARE the statement proved about the
//!     real function by another harness of this group, and they assert that contract's precondition (input length / shape).
use super::*;
use crate::fmt::temporal::printer::DateTimePrinter;
use crate::verif_kani::spec::*;

const BUF: usize = 20;
pub struct BufN<const N: usize> { pub b: [u8; N], pub n: usize, pub overflow: bool }
pub type Buf = BufN<BUF>;
impl<const N: usize> BufN<N> { pub fn new() -> BufN<N> { BufN { b: [0; N], n: 0, overflow: false } } }
impl<const N: usize> crate::fmt::Write for BufN<N> {
    fn write_str(&mut self, s: &str) -> Result<(), Error> {
        let bytes = s.as_bytes();
        let mut i = 0;
        while i < bytes.len() {
            if self.n >= N { self.overflow = true; return Ok(()); }
            self.b[self.n] = bytes[i];
            self.n += 1;
            i += 1;
        }
        Ok(())
    }
}

// ---------------------------------------------------------------- independent reference reader
/// value of one ASCII digit, None otherwise
fn dg(c: u8) -> Option<i64> {
    if c >= b'0' && c <= b'9' { Some((c - b'0') as i64) } else { None }
}
fn dg2(a: u8, b: u8) -> Option<i64> {
    Some(dg(a)? * 10 + dg(b)?)
}
fn dg4(a: u8, b: u8, c: u8, d: u8) -> Option<i64> {
    Some(dg(a)? * 1000 + dg(b)? * 100 + dg(c)? * 10 + dg(d)?)
}
/// ISO 8601 extended calendar date: `YYYY-MM-DD` (10 bytes) or, with the expanded year, `sYYYYYY-MM-DD`
/// (13 bytes, s = '+' | '-'; "-000000" is not a year).  Returns the named (y, m, d) if it is a Gregorian date.
fn ref_date<const N: usize>(b: &[u8; N], n: usize) -> Option<(i64, i64, i64)> {
    if n > N { return None; }
    let (y, at) = if n == 10 {
        (dg4(b[0], b[1], b[2], b[3])?, 4)
    } else if n == 13 {
        let a = dg2(b[1], b[2])? * 10000 + dg4(b[3], b[4], b[5], b[6])?;
        if b[0] == b'-' {
            if a == 0 { return None; }
            (-a, 7)
        } else if b[0] == b'+' {
            (a, 7)
        } else {
            return None;
        }
    } else {
        return None;
    };
    if b[at] != b'-' || b[at + 3] != b'-' { return None; }
    let m = dg2(b[at + 1], b[at + 2])?;
    let d = dg2(b[at + 4], b[at + 5])?;
    if !valid(y, m, d) { return None; }
    Some((y, m, d))
}
/// RFC 3339 partial-time `HH:MM:SS[.f+]` with 1..=9 fraction digits; returns (h, m, s, nanosecond).
fn ref_time<const N: usize>(b: &[u8; N], n: usize) -> Option<(i64, i64, i64, i64)> {
    if n < 8 || n == 9 || n > 18 || n > N { return None; }
    if b[2] != b':' || b[5] != b':' { return None; }
    let h = dg2(b[0], b[1])?;
    let m = dg2(b[3], b[4])?;
    let s = dg2(b[6], b[7])?;
    if h > 23 || m > 59 || s > 59 { return None; }
    let mut ns: i64 = 0;
    if n > 8 {
        if b[8] != b'.' { return None; }
        let mut i = 0;
        while i < 9 {
            ns = ns * 10;
            if 9 + i < n { ns += dg(b[9 + i])?; }
            i += 1;
        }
    }
    Some((h, m, s, ns))
}

fn any_time_fields() -> (i8, i8, i8, i32) {
    let h: i8 = kani::any();
    let m: i8 = kani::any();
    let s: i8 = kani::any();
    let ns: i32 = kani::any();
    kani::assume(0 <= h && h <= 23 && 0 <= m && m <= 59 && 0 <= s && s <= 59 && 0 <= ns && ns <= 999_999_999);
    (h, m, s, ns)
}
fn mk_time(h: i8, m: i8, s: i8, ns: i32) -> Time {
    Time::new_ranged(
        t::Hour::new_unchecked(h),
        t::Minute::new_unchecked(m),
        t::Second::new_unchecked(s),
        t::SubsecNanosecond::new_unchecked(ns),
    )
}

// ---------------------------------------------------------------- printer side
//@harness c09_print_date
//@target fmt::temporal::printer::DateTimePrinter::print_date + fmt::util::{DecimalFormatter,Decimal::new} (src/fmt/temporal/printer.rs, src/fmt/util.rs)
//@prop C09
//@tier quick
//@timeout 900
//@doc for EVERY civil date (-9999-01-01..=9999-12-31): the printed text is `YYYY-MM-DD` (10 bytes) for year >= 0 and `-YYYYYY-MM-DD` (13 bytes, ISO 8601 expanded year) for year < 0, and the independent reference reader decodes it to exactly (year, month, day)  [decode . print = id on Date].  NB the negative-year text (e.g. `-000001-01-01`) is ISO 8601 expanded / RFC 9557-Temporal syntax, NOT RFC 3339 (whose date-fullyear is 4DIGIT)
#[kani::proof]
#[kani::unwind(9)]
#[kani::solver(kissat)]
fn c09_print_date() {
    let (y, m, d) = any_ymd();
    let date = mk_date(y, m, d);
    let mut w = Buf::new();
    let r = DateTimePrinter::new().print_date(&date, &mut w);
    assert!(r.is_ok() && !w.overflow);
    assert!(w.n == if y >= 0 { 10 } else { 13 });
    assert!(y >= 0 || w.b[0] == b'-');
    assert!(ref_date(&w.b, w.n) == Some((y as i64, m as i64, d as i64)));
}

//@harness c09_print_time
//@target fmt::temporal::printer::DateTimePrinter::print_time + fmt::util::{Decimal::new,Fractional::new} (src/fmt/temporal/printer.rs, src/fmt/util.rs)
//@prop C09
//@tier quick
//@timeout 900
//@doc for EVERY civil time (00:00:00..=23:59:59.999999999), default printer configuration: the text is `HH:MM:SS` (8 bytes) iff the nanosecond is 0, otherwise `HH:MM:SS.` + 1..=9 digits whose last digit is not '0' (trailing zeros trimmed), and the independent reference reader decodes it to exactly (hour, minute, second, nanosecond)  [decode . print = id on Time]
#[kani::proof]
#[kani::unwind(11)]
#[kani::solver(kissat)]
fn c09_print_time() {
    let (h, m, s, ns) = any_time_fields();
    let time = mk_time(h, m, s, ns);
    let mut w = Buf::new();
    let r = DateTimePrinter::new().print_time(&time, &mut w);
    assert!(r.is_ok() && !w.overflow);
    assert!((w.n == 8) == (ns == 0));
    assert!(w.n == 8 || (10 <= w.n && w.n <= 18 && w.b[w.n - 1] != b'0'));
    assert!(ref_time(&w.b, w.n) == Some((h as i64, m as i64, s as i64, ns as i64)));
}

// ---------------------------------------------------------------- parser side: dates
/// Reference PREFIX reader for the Temporal `Date` production on a byte string (ISO 8601 calendar date,
/// extended `YYYY-MM-DD` or basic `YYYYMMDD`, year either 4 digits or sign + 6 digits, "-000000" excluded,
/// year range -9999..=9999): Some((y, m, d, bytes consumed)) or None (not a date).
fn ref_date_prefix(b: &[u8]) -> Option<(i64, i64, i64, usize)> {
    let at = |i: usize| -> Option<u8> { if i < b.len() { Some(b[i]) } else { None } };
    let (y, p) = if b.len() > 0 && (b[0] == b'+' || b[0] == b'-') {
        let a = dg2(at(1)?, at(2)?)? * 10000 + dg4(at(3)?, at(4)?, at(5)?, at(6)?)?;
        if a > 9999 { return None; }
        if b[0] == b'-' && a == 0 { return None; }
        (if b[0] == b'-' { -a } else { a }, 7)
    } else {
        (dg4(at(0)?, at(1)?, at(2)?, at(3)?)?, 4)
    };
    let extended = at(p) == Some(b'-');
    let p = if extended { p + 1 } else { p };
    let m = dg2(at(p)?, at(p + 1)?)?;
    if m < 1 || m > 12 { return None; }
    let p = p + 2;
    let p = if extended {
        if at(p)? != b'-' { return None; }
        p + 1
    } else {
        if at(p) == Some(b'-') { return None; }
        p
    };
    let d = dg2(at(p)?, at(p + 1)?)?;
    if !valid(y, m, d) { return None; }
    Some((y, m, d, p + 2))
}
//@harness c09_parse_date_spec
//@target fmt::temporal::parser::DateTimeParser::{parse_date_spec,parse_year,parse_year_sign,parse_month,parse_day,parse_date_separator} + util::parse::{i64,split,slicer} + civil::Date::new_ranged (src/fmt/temporal/parser.rs)
//@prop C09 C17
//@tier thorough
//@timeout 1500
//@doc for EVERY byte string of length 0..=32 (32 = the printer's longest datetime): parse_date_spec returns Ok exactly when the reference prefix reader finds a Gregorian date (extended or basic form; 4-digit year or sign + 6 digits within -9999..=9999, "-000000" rejected), with exactly that (year, month, day) and exactly the reference's unconsumed rest; everything else is Err, never a panic.  This is the contract used as a stub (date_spec_contract) by c09_roundtrip_datetime
#[kani::proof]
#[kani::unwind(8)]
#[kani::solver(kissat)]
fn c09_parse_date_spec() {
    let b: [u8; 32] = kani::any();
    let n: usize = kani::any();
    kani::assume(n <= 32);
    let r = DateTimeParser::new().parse_date_spec(&b[..n]);
    match ref_date_prefix(&b[..n]) {
        None => assert!(r.is_err()),
        Some((y, m, d, used)) => match r {
            Err(_) => assert!(false, "a valid date was rejected"),
            Ok(p) => {
                assert!(ymd(p.value.date) == (y, m, d));
                assert!(p.input.len() == n - used);
                assert!(p.value.input.0.len() == used);
            }
        },
    }
}

/// The CONTRACT of parse_date_spec proved by c09_parse_date_spec (all inputs of length <= 32, asserted here), as a stub
fn date_spec_contract<'i>(_p: &DateTimeParser, input: &'i [u8]) -> Result<Parsed<'i, ParsedDate<'i>>, Error> {
    assert!(input.len() <= 32);
    match ref_date_prefix(input) {
        None => Err(Error::adhoc_from_static_str("not a date")),
        Some((y, m, d, used)) => {
            let value = ParsedDate { input: escape::Bytes(&input[..used]), date: mk_date(y as i16, m as i8, d as i8) };
            Ok(Parsed { value, input: &input[used..] })
        }
    }
}

// Self-checking stubs: they replace parser stages that must be UNREACHABLE for the inputs of a harness and panic when
// called, so a passing harness proves the unreachability instead of assuming it (nothing is trusted).  They are needed
// because CBMC's symbolic execution cannot see that the rest of the input is empty and would otherwise unroll the time,
// offset and RFC 9557 annotation parsers (> 15 min of symbolic execution alone, measured).
fn unreachable_time_spec<'i>(_p: &DateTimeParser, _input: &'i [u8]) -> Result<Parsed<'i, ParsedTime<'i>>, Error> {
    assert!(false, "parse_time_spec reached");
    Err(Error::adhoc_from_static_str("unreachable"))
}
fn unreachable_offset<'i>(_p: &DateTimeParser, _input: &'i [u8]) -> Result<Parsed<'i, Option<ParsedOffset>>, Error> {
    assert!(false, "parse_offset reached");
    Err(Error::adhoc_from_static_str("unreachable"))
}
fn unreachable_annotations<'i>(_p: &DateTimeParser, _input: &'i [u8]) -> Result<Parsed<'i, ParsedAnnotations<'i>>, Error> {
    assert!(false, "parse_annotations reached");
    Err(Error::adhoc_from_static_str("unreachable"))
}

/// the public entry point behind `<civil::Date as FromStr>::from_str`, checked against the reference reader
fn check_parse_date<const N: usize>(b: &[u8; N]) {
    let r = crate::fmt::temporal::DateTimeParser::new().parse_date(b);
    match ref_date(b, N) {
        None => assert!(r.is_err()),
        Some((y, m, d)) => match r {
            Err(_) => assert!(false, "a valid date was rejected"),
            Ok(date) => assert!(ymd(date) == (y, m, d)),
        },
    }
}

//@harness c09_parse_date_10
//@target fmt::temporal::DateTimeParser::parse_date (= <civil::Date as FromStr>::from_str) -> parser::DateTimeParser::parse_temporal_datetime -> parse_date_spec -> Parsed::into_full -> ParsedDateTime::to_date (src/fmt/temporal/mod.rs, parser.rs)
//@prop C09 C17
//@tier thorough
//@timeout 1500
//@doc for EVERY 10-byte string of the printer's positive-year shape `????-??-??` (both '-' in place, the other 8 bytes arbitrary): the public date parser returns Ok(d) exactly when the independent reference reader (the same one that decodes the printer's output) finds a Gregorian date, and d has exactly those fields; everything else is Err, never a panic  [parse = decode].  Composition with c09_print_date: print emits this shape and decode(print(d)) = d, hence parse(print(d)) = Ok(d) for every Date with year >= 0.
#[kani::proof]
#[kani::stub(DateTimeParser::parse_time_spec, unreachable_time_spec)]
#[kani::stub(DateTimeParser::parse_offset, unreachable_offset)]
#[kani::stub(DateTimeParser::parse_annotations, unreachable_annotations)]
#[kani::unwind(8)]
fn c09_parse_date_10() {
    let mut b: [u8; 10] = kani::any();
    b[4] = b'-';
    b[7] = b'-';
    check_parse_date(&b);
}

//@harness c09_parse_date_13
//@target fmt::temporal::DateTimeParser::parse_date (= <civil::Date as FromStr>::from_str) -> parser::DateTimeParser::parse_temporal_datetime -> parse_date_spec/parse_year (signed six-digit year) -> Parsed::into_full -> ParsedDateTime::to_date (src/fmt/temporal/mod.rs, parser.rs)
//@prop C09 C17
//@tier thorough
//@timeout 1500
//@doc for EVERY 13-byte string of the printer's negative-year shape `s??????-??-??` (s = '-' as printed, or '+'; both '-' separators in place, the other 10 bytes arbitrary): the public date parser returns Ok(d) exactly when the reference reader finds a Gregorian date with year in -9999..=9999 ("-000000" is Err), and d has exactly those fields  [parse = decode].  Composition with c09_print_date: parse(print(d)) = Ok(d) for every Date with year < 0.
#[kani::proof]
#[kani::stub(DateTimeParser::parse_time_spec, unreachable_time_spec)]
#[kani::stub(DateTimeParser::parse_offset, unreachable_offset)]
#[kani::stub(DateTimeParser::parse_annotations, unreachable_annotations)]
#[kani::unwind(8)]
fn c09_parse_date_13() {
    let mut b: [u8; 13] = kani::any();
    b[7] = b'-';
    b[10] = b'-';
    // two concrete signs (a symbolic sign byte would make the parser's 4-digit-year path reachable for symbolic execution)
    if kani::any() { b[0] = b'-'; check_parse_date(&b); } else { b[0] = b'+'; check_parse_date(&b); }
}

// ---------------------------------------------------------------- parser side: times
/// Reference PREFIX reader for the Temporal `TimeSpec` production on the byte string b (ISO 8601 time of day,
/// extended `HH[:MM[:SS[.f{1,9}]]]` or basic `HH[MM[SS[.f{1,9}]]]`, decimal sign '.' or ',', second 00..=60):
/// Some((h, m, s, nanosecond, bytes consumed)) with the RAW second (60 stays 60), or None (not a time).
fn ref_time_prefix(b: &[u8]) -> Option<(i64, i64, i64, i64, usize)> {
    let at = |i: usize| -> Option<u8> { if i < b.len() { Some(b[i]) } else { None } };
    let isd = |i: usize| -> bool { match at(i) { Some(c) => dg(c).is_some(), None => false } };
    let h = dg2(at(0)?, at(1)?)?;
    if h > 23 { return None; }
    let extended = at(2) == Some(b':');
    let mut p = 2;
    if extended { p = 3; } else if !(isd(2) && isd(3)) { return Some((h, 0, 0, 0, 2)); }
    let m = dg2(at(p)?, at(p + 1)?)?;
    if m > 59 { return None; }
    p += 2;
    if extended {
        if at(p) != Some(b':') { return Some((h, m, 0, 0, p)); }
        p += 1;
    } else if !(isd(p) && isd(p + 1)) {
        return Some((h, m, 0, 0, p));
    }
    let s = dg2(at(p)?, at(p + 1)?)?;
    if s > 60 { return None; }
    p += 2;
    if at(p) != Some(b'.') && at(p) != Some(b',') { return Some((h, m, s, 0, p)); }
    p += 1;
    if !isd(p) { return None; }
    let mut ns: i64 = 0;
    let mut k = 0;
    let mut open = true;
    while k < 9 {
        ns = ns * 10;
        if open && isd(p) { ns += (b[p] - b'0') as i64; p += 1; } else { open = false; }
        k += 1;
    }
    Some((h, m, s, ns, p))
}
fn hmsn(t: Time) -> (i64, i64, i64, i64) {
    (t.hour() as i64, t.minute() as i64, t.second() as i64, t.subsec_nanosecond() as i64)
}

//@harness c09_parse_time_spec
//@target fmt::temporal::parser::DateTimeParser::{parse_time_spec,parse_hour,parse_minute,parse_second,parse_time_separator} + fmt::util::parse_temporal_fraction + util::parse::{i64,fraction,split,slicer} (src/fmt/temporal/parser.rs, src/fmt/util.rs, src/util/parse.rs)
//@prop C09 C17
//@tier thorough
//@timeout 1500
//@doc for EVERY byte string of length 0..=18 (18 = the printer's longest time `HH:MM:SS.fffffffff`): parse_time_spec returns Ok exactly when the reference prefix reader finds a time of day (extended or basic form, optional minute/second, '.' or ',' fraction of 1..=9 digits), with exactly that hour, minute, nanosecond and unconsumed rest, second = min(raw second, 59) (a leap second `60` is clamped to 59), `extended` = (third byte is ':'); everything else is Err, never a panic.  This is the contract used as a stub (time_spec_contract) by c09_parse_time
#[kani::proof]
#[kani::unwind(11)]
#[kani::solver(kissat)]
fn c09_parse_time_spec() {
    let b: [u8; 18] = kani::any();
    let n: usize = kani::any();
    kani::assume(n <= 18);
    let r = DateTimeParser::new().parse_time_spec(&b[..n]);
    match ref_time_prefix(&b[..n]) {
        None => assert!(r.is_err()),
        Some((h, m, s, ns, used)) => match r {
            Err(_) => assert!(false, "a valid time was rejected"),
            Ok(p) => {
                assert!(hmsn(p.value.time) == (h, m, if s == 60 { 59 } else { s }, ns));
                assert!(p.input.len() == n - used);
                // the two remaining fields of ParsedTime (used by parse_temporal_time / error messages)
                assert!(p.value.extended == (n > 2 && b[2] == b':'));
                assert!(p.value.input.0.len() == used);
            }
        },
    }
}

/// The CONTRACT of parse_time_spec proved by c09_parse_time_spec (all inputs of length <= 18, asserted here), as a stub:
/// used by c09_parse_time so that the glue code of parse_temporal_time is verified without re-executing the digit loops.
fn time_spec_contract<'i>(_p: &DateTimeParser, input: &'i [u8]) -> Result<Parsed<'i, ParsedTime<'i>>, Error> {
    assert!(input.len() <= 18);
    match ref_time_prefix(input) {
        None => Err(Error::adhoc_from_static_str("not a time")),
        Some((h, m, s, ns, used)) => {
            let s = if s == 60 { 59 } else { s };
            let value = ParsedTime {
                input: escape::Bytes(&input[..used]),
                time: mk_time(h as i8, m as i8, s as i8, ns as i32),
                extended: input.len() > 2 && input[2] == b':',
            };
            Ok(Parsed { value, input: &input[used..] })
        }
    }
}

fn unreachable_offset_parser<'i>(_p: &offset::Parser, _input: &'i [u8]) -> Result<Parsed<'i, ParsedOffset>, Error> {
    assert!(false, "offset::Parser::parse reached");
    Err(Error::adhoc_from_static_str("unreachable"))
}
fn unreachable_month_day<'i>(_p: &DateTimeParser, _input: &'i [u8]) -> Result<Parsed<'i, ()>, Error> {
    assert!(false, "parse_month_day / parse_year_month reached (only for times in basic format)");
    Err(Error::adhoc_from_static_str("unreachable"))
}
fn unreachable_annotation_parser<'i>(_p: &rfc9557::Parser, _input: &'i [u8]) -> Result<Parsed<'i, ParsedAnnotations<'i>>, Error> {
    assert!(false, "rfc9557::Parser::parse reached");
    Err(Error::adhoc_from_static_str("unreachable"))
}

//@harness c09_time_shape_is_not_a_datetime
//@target fmt::temporal::parser::DateTimeParser::parse_temporal_datetime -> parse_date_spec -> parse_year (src/fmt/temporal/parser.rs)
//@prop C09 C17
//@tier quick
//@timeout 900
//@doc LEMMA for c09_parse_time: for EVERY byte string of length 3..=18 whose third byte is ':' (every time the printer emits), parse_temporal_datetime returns Err (the year needs 4 or sign+6 digits); the time/offset/annotation stages are proved unreachable (self-checking stubs).  This is the contract of the `datetime_attempt_fails` stub.
#[kani::proof]
#[kani::stub(DateTimeParser::parse_time_spec, unreachable_time_spec)]
#[kani::stub(DateTimeParser::parse_offset, unreachable_offset)]
#[kani::stub(DateTimeParser::parse_annotations, unreachable_annotations)]
#[kani::unwind(8)]
fn c09_time_shape_is_not_a_datetime() {
    let mut b: [u8; 18] = kani::any();
    let n: usize = kani::any();
    kani::assume(3 <= n && n <= 18);
    b[2] = b':';
    assert!(DateTimeParser::new().parse_temporal_datetime(&b[..n]).is_err());
}

/// stand-in for parse_temporal_datetime inside c09_parse_time: checks its precondition (third byte ':') and returns
/// Err, which is what the real function does for exactly these inputs (lemma c09_time_shape_is_not_a_datetime)
fn datetime_attempt_fails<'i>(_p: &DateTimeParser, input: &'i [u8]) -> Result<Parsed<'i, ParsedDateTime<'i>>, Error> {
    assert!(input.len() >= 3 && input.len() <= 18 && input[2] == b':');
    Err(Error::adhoc_from_static_str("not a datetime"))
}

//@harness c09_parse_time
//@target fmt::temporal::DateTimeParser::parse_time (= <civil::Time as FromStr>::from_str) -> parser::DateTimeParser::parse_temporal_time (glue) -> {parse_offset, parse_annotations} -> Parsed::into_full (src/fmt/temporal/mod.rs, parser.rs)
//@prop C09 C17
//@tier quick
//@timeout 900
//@doc for EVERY string of the printer's time shape -- length 8 `??:??:??` or 10..=18 `??:??:??.d+` with both ':' and the '.' in place, the six H/M/S bytes arbitrary, the 1..=9 fraction bytes ASCII digits: the public time parser returns Ok(t) exactly when the independent RFC 3339 reference reader (the one that decodes the printer's output) finds hour <= 23, minute <= 59, second <= 60, and t has exactly those fields with second = min(second, 59); everything else is Err, never a panic  [parse = decode on the printer's image, where second <= 59].  The offset and RFC 9557 annotation parsers and the basic-format ambiguity checks (parse_month_day, parse_year_month) are proved unreachable for these inputs (self-checking stubs); two callees are replaced by their PROVED contracts, with the contract's precondition asserted in the stub: parse_time_spec by c09_parse_time_spec (all inputs <= 18 bytes) and the failed "is it a full datetime?" attempt by lemma c09_time_shape_is_not_a_datetime.  Composition with c09_print_time: print emits this shape and decode(print(t)) = t, hence parse(print(t)) = Ok(t) for every Time.
#[kani::proof]
#[kani::stub(DateTimeParser::parse_temporal_datetime, datetime_attempt_fails)]
#[kani::stub(DateTimeParser::parse_time_spec, time_spec_contract)]
#[kani::stub(DateTimeParser::parse_month_day, unreachable_month_day)]
#[kani::stub(DateTimeParser::parse_year_month, unreachable_month_day)]
#[kani::stub(crate::fmt::offset::Parser::parse, unreachable_offset_parser)]
#[kani::stub(crate::fmt::rfc9557::Parser::parse, unreachable_annotation_parser)]
#[kani::unwind(11)]
#[kani::solver(kissat)]
fn c09_parse_time() {
    let mut b: [u8; 18] = kani::any();
    let n: usize = kani::any();
    kani::assume(n == 8 || (10 <= n && n <= 18));
    b[2] = b':';
    b[5] = b':';
    if n > 8 { b[8] = b'.'; }
    let mut i = 9;
    while i < 18 { if i < n { kani::assume(dg(b[i]).is_some()); } i += 1; }
    let r = crate::fmt::temporal::DateTimeParser::new().parse_time(&b[..n]);
    // the independent reader of the printer's output accepts second <= 59 only; RFC 3339 also allows 60
    let leap = b[6] == b'6' && b[7] == b'0';
    let mut c = b;
    if leap { c[6] = b'5'; c[7] = b'9'; }
    match ref_time(&c, n) {
        None => assert!(r.is_err()),
        Some(hmsn_ref) => match r {
            Err(_) => assert!(false, "a valid time was rejected"),
            Ok(t) => assert!(hmsn(t) == hmsn_ref),
        },
    }
}

// ---------------------------------------------------------------- direct round trips (capstones)
//@harness c09_roundtrip_date
//@target fmt::temporal::printer::DateTimePrinter::print_date ; fmt::temporal::DateTimeParser::parse_date (= Display / FromStr of civil::Date) (src/fmt/temporal/printer.rs, parser.rs, mod.rs)
//@prop C09
//@tier thorough
//@timeout 1500
//@doc for EVERY civil date d: parse_date(print_date(d)) = Ok(d) (same year, month, day), all real code; the time/offset/annotation stages of the parser are proved unreachable (self-checking stubs)
#[kani::proof]
#[kani::stub(DateTimeParser::parse_time_spec, unreachable_time_spec)]
#[kani::stub(DateTimeParser::parse_offset, unreachable_offset)]
#[kani::stub(DateTimeParser::parse_annotations, unreachable_annotations)]
#[kani::unwind(9)]
#[kani::solver(kissat)]
fn c09_roundtrip_date() {
    let (y, m, d) = any_ymd();
    let date = mk_date(y, m, d);
    let mut w = Buf::new();
    let r = DateTimePrinter::new().print_date(&date, &mut w);
    assert!(r.is_ok() && !w.overflow);
    match crate::fmt::temporal::DateTimeParser::new().parse_date(&w.b[..w.n]) {
        Err(_) => assert!(false, "printed date does not parse"),
        Ok(back) => assert!(ymd(back) == (y as i64, m as i64, d as i64)),
    }
}

//@harness c09_roundtrip_time
//@target fmt::temporal::printer::DateTimePrinter::print_time ; fmt::temporal::DateTimeParser::parse_time (= Display / FromStr of civil::Time) (src/fmt/temporal/printer.rs, parser.rs, mod.rs)
//@prop C09
//@tier thorough
//@timeout 1500
//@doc for EVERY civil time t: parse_time(print_time(t)) = Ok(t) (same hour, minute, second, nanosecond).  Real printer, real parse_temporal_time glue / parse_offset / parse_annotations / into_full; parse_time_spec and the failed datetime attempt are replaced by their proved contracts (c09_parse_time_spec, c09_time_shape_is_not_a_datetime; preconditions asserted in the stubs); offset/annotation parsers and basic-format ambiguity checks proved unreachable
#[kani::proof]
#[kani::stub(DateTimeParser::parse_temporal_datetime, datetime_attempt_fails)]
#[kani::stub(DateTimeParser::parse_time_spec, time_spec_contract)]
#[kani::stub(DateTimeParser::parse_month_day, unreachable_month_day)]
#[kani::stub(DateTimeParser::parse_year_month, unreachable_month_day)]
#[kani::stub(crate::fmt::offset::Parser::parse, unreachable_offset_parser)]
#[kani::stub(crate::fmt::rfc9557::Parser::parse, unreachable_annotation_parser)]
#[kani::unwind(11)]
#[kani::solver(kissat)]
fn c09_roundtrip_time() {
    let (h, m, s, ns) = any_time_fields();
    let time = mk_time(h, m, s, ns);
    let mut w = Buf::new();
    let r = DateTimePrinter::new().print_time(&time, &mut w);
    assert!(r.is_ok() && !w.overflow);
    match crate::fmt::temporal::DateTimeParser::new().parse_time(&w.b[..w.n]) {
        Err(_) => assert!(false, "printed time does not parse"),
        Ok(back) => assert!(hmsn(back) == (h as i64, m as i64, s as i64, ns as i64)),
    }
}

//@harness c09_roundtrip_datetime
//@target fmt::temporal::printer::DateTimePrinter::print_datetime ; fmt::temporal::DateTimeParser::parse_datetime (= Display / FromStr of civil::DateTime) (src/fmt/temporal/printer.rs, parser.rs, mod.rs)
//@prop C09
//@tier thorough
//@timeout 1500
//@doc for EVERY civil datetime dt: parse_datetime(print_datetime(dt)) = Ok(dt) (same date and time fields); the text is date 'T' time (19..=32 bytes).  Real printer, real parse_temporal_datetime glue / parse_offset / parse_annotations / into_full / to_datetime; parse_date_spec and parse_time_spec replaced by their proved contracts (c09_parse_date_spec: all inputs <= 32 bytes, c09_parse_time_spec: all inputs <= 18 bytes; the length preconditions are asserted in the stubs); offset/annotation parsers proved unreachable (self-checking stubs)
#[kani::proof]
#[kani::stub(DateTimeParser::parse_date_spec, date_spec_contract)]
#[kani::stub(DateTimeParser::parse_time_spec, time_spec_contract)]
#[kani::stub(crate::fmt::offset::Parser::parse, unreachable_offset_parser)]
#[kani::stub(crate::fmt::rfc9557::Parser::parse, unreachable_annotation_parser)]
#[kani::unwind(11)]
#[kani::solver(kissat)]
fn c09_roundtrip_datetime() {
    let (y, mo, d) = any_ymd();
    let (h, mi, s, ns) = any_time_fields();
    let dt = DateTime::from_parts(mk_date(y, mo, d), mk_time(h, mi, s, ns));
    let mut w = BufN::<32>::new();
    let r = DateTimePrinter::new().print_datetime(&dt, &mut w);
    assert!(r.is_ok() && !w.overflow);
    assert!(w.b[if y >= 0 { 10 } else { 13 }] == b'T');
    match crate::fmt::temporal::DateTimeParser::new().parse_datetime(&w.b[..w.n]) {
        Err(_) => assert!(false, "printed datetime does not parse"),
        Ok(back) => {
            assert!(ymd(back.date()) == (y as i64, mo as i64, d as i64));
            assert!(hmsn(back.time()) == (h as i64, mi as i64, s as i64, ns as i64));
        }
    }
}
