//@inject src/shared/tzif.rs
//! C17 / C03: the TZif byte-level parser and the in-memory fattening helpers (src/shared/tzif.rs).
//! These use Vec/String/iterator adapters (outside Verus' subset): BOUNDED stand-ins, never counted as proved.
use super::*;
use alloc::string::String;
use alloc::vec::Vec;
use crate::shared::{TzifFixed, TzifTransitionsOwned};

fn wf_indices(t: &TzifOwned) -> bool {
    let n = t.transitions.timestamps.len();
    if n == 0 || t.transitions.infos.len() != n || t.transitions.civil_starts.len() != n || t.transitions.civil_ends.len() != n {
        return false;
    }
    let mut i = 0;
    while i < n {
        if usize::from(t.transitions.infos[i].type_index) >= t.types.len() {
            return false;
        }
        i += 1;
    }
    true
}

//@harness c17_tzif_parse_v1_1x1
//@target shared::TzifOwned::parse (src/shared/tzif.rs): V1 file with 1 transition, 1 local time type, 4 designation bytes
//@prop C17 C03 C05
//@tier thorough
//@features alloc
//@timeout 2400
//@bounded header counts fixed to timecnt=1,typecnt=1,charcnt=4 (59-byte V1 file); all 15 data bytes symbolic
//@doc parse returns Ok or Err without panicking; an Ok table has >= 1 transition (the dummy), equal-length columns and every transition type index < number of types
#[kani::proof]
#[kani::unwind(64)]
fn c17_tzif_parse_v1_1x1() {
    let mut bytes = [0u8; 59];
    bytes[0] = b'T'; bytes[1] = b'Z'; bytes[2] = b'i'; bytes[3] = b'f';
    bytes[4] = 0; // version 1
    // isutcnt, isstdcnt, leapcnt = 0; timecnt = 1; typecnt = 1; charcnt = 4 (big endian u32 at 20,24,28,32,36,40)
    bytes[35] = 1; bytes[39] = 1; bytes[43] = 4;
    let data: [u8; 15] = kani::any();
    let mut i = 0;
    while i < 15 { bytes[44 + i] = data[i]; i += 1; }
    match TzifOwned::parse(None, &bytes) {
        Ok(t) => { assert!(wf_indices(&t)); }
        Err(_) => {}
    }
}

fn mk(types: Vec<TzifLocalTimeType>, designations: &str) -> TzifOwned {
    TzifOwned {
        fixed: TzifFixed { name: None, version: b'2', checksum: 0, designations: String::from(designations), posix_tz: None },
        types,
        transitions: TzifTransitionsOwned { timestamps: Vec::new(), civil_starts: Vec::new(), civil_ends: Vec::new(), infos: Vec::new() },
    }
}

// cheap stand-ins for the two string helpers: designation ranges (0,2)->"AB", (3,5)->"CD", (6,8)->"EF"
fn stub_designation<'a>(_t: &'a TzifOwned, typ: &TzifLocalTimeType) -> &'a str {
    if typ.designation.0 == 0 { "AB" } else if typ.designation.0 == 3 { "CD" } else { "EF" }
}
fn stub_find_or_create_designation(_t: &mut TzifOwned, needle: &str) -> Option<(u8, u8)> {
    if needle == "AB" { Some((0, 2)) } else if needle == "CD" { Some((3, 5)) } else { Some((6, 8)) }
}

//@harness c03_find_or_create_local_time_type
//@target shared::TzifOwned::find_or_create_local_time_type (src/shared/tzif.rs)
//@prop C03 C18 C17
//@tier quick
//@features alloc
//@timeout 600
//@bounded two existing local time types with symbolic offset/DST flag/abbreviation in {AB,CD}; query abbreviation in {AB,CD,EF}; the two string helpers (designation, find_or_create_designation) are replaced by table stubs
//@doc Some(i) => types[i] has exactly the requested offset, DST flag and abbreviation, and the previously existing types are unchanged (fattening never re-uses a type that differs in any of the three)
#[kani::proof]
#[kani::stub(crate::shared::Tzif::designation, stub_designation)]
#[kani::stub(crate::shared::Tzif::find_or_create_designation, stub_find_or_create_designation)]
#[kani::unwind(4)]
fn c03_find_or_create_local_time_type() {
    let o0: i32 = kani::any(); let o1: i32 = kani::any(); let q: i32 = kani::any();
    let d0: bool = kani::any(); let d1: bool = kani::any(); let qd: bool = kani::any();
    let a0: bool = kani::any(); let a1: bool = kani::any();
    let des = |first: bool| if first { (0u8, 2u8) } else { (3u8, 5u8) };
    let t0 = TzifLocalTimeType { offset: o0, is_dst: d0, designation: des(a0), indicator: TzifIndicator::LocalWall };
    let t1 = TzifLocalTimeType { offset: o1, is_dst: d1, designation: des(a1), indicator: TzifIndicator::LocalWall };
    let mut types = Vec::with_capacity(3); types.push(t0); types.push(t1);
    let mut tz = mk(types, "");
    let which: u8 = kani::any(); kani::assume(which < 3);
    let abbrev = if which == 0 { "AB" } else if which == 1 { "CD" } else { "EF" };
    let r = tz.find_or_create_local_time_type(IOffset { second: q }, abbrev, qd);
    if let Some(i) = r {
        let i = usize::from(i);
        assert!(i < tz.types.len());
        let t = tz.types[i];
        assert!(t.offset == q && t.is_dst == qd);
        assert!(stub_designation(&tz, &t) == abbrev);
        // an existing matching type is re-used, otherwise a new one is appended
        assert!(i <= 2);
    } else {
        assert!(false, "with fewer than 256 types the lookup/creation never fails");
    }
    assert!(tz.types[0].offset == o0 && tz.types[0].is_dst == d0 && tz.types[1].offset == o1 && tz.types[1].is_dst == d1);
}

//@harness c18_find_or_create_designation
//@target shared::TzifOwned::find_or_create_designation (src/shared/tzif.rs)
//@prop C18 C03 C17
//@tier thorough
//@features alloc
//@timeout 1500
//@bounded designation table "AB\0CD\0" (concrete), needle in {AB,CD,EF}
//@doc Some((a,b)) => designations[a..b] == needle (no trailing NUL), existing entries are re-used, a new entry is appended NUL-terminated
#[kani::proof]
#[kani::unwind(12)]
fn c18_find_or_create_designation() {
    let mut tz = mk(Vec::new(), "AB\0CD\0");
    let which: u8 = kani::any(); kani::assume(which < 3);
    let needle = if which == 0 { "AB" } else if which == 1 { "CD" } else { "EF" };
    let r = tz.find_or_create_designation(needle);
    match r {
        Some((a, b)) => {
            let (a, b) = (usize::from(a), usize::from(b));
            assert!(&tz.fixed.designations[a..b] == needle);
            if which == 0 { assert!(a == 0 && b == 2); }
            if which == 1 { assert!(a == 3 && b == 5); }
            if which == 2 { assert!(a == 6 && b == 8 && tz.fixed.designations.len() == 9); }
        }
        None => assert!(false),
    }
}
