//@inject src/shared/tzif.rs
//! C17 / C03: the TZif byte-level parser and the in-memory fattening helpers (src/shared/tzif.rs).
//! These use Vec/String/iterator adapters (outside Verus' subset): BOUNDED stand-ins, never counted as proved.
use super::*;
use alloc::string::String;
use alloc::vec::Vec;
use crate::shared::{TzifFixed, TzifTransitionsOwned};

/// error construction formats a message through alloc::fmt (hundreds of thousands of SAT clauses and loops over the
/// message text); the message is irrelevant to the property, so it is replaced by a constant
fn stub_from_args<'a>(_m: core::fmt::Arguments<'a>) -> Error {
    // `Error { message: Box<str> }` has one private field; built here without going through the formatter
    unsafe { core::mem::transmute::<alloc::boxed::Box<str>, Error>(String::new().into_boxed_str()) }
}

fn wf_indices(t: &TzifOwned) -> bool {
    let n = t.transitions.timestamps.len();
    if n == 0 || t.transitions.infos.len() != n || t.transitions.civil_starts.len() != n || t.transitions.civil_ends.len() != n {
        return false;
    }
    let mut i = 0;
    while i < n {
        if usize::from(t.transitions.infos[i].type_index) >= t.types.len() {
            return false;
        }
        i += 1;
    }
    true
}

fn mk(types: Vec<TzifLocalTimeType>, designations: &str) -> TzifOwned {
    TzifOwned {
        fixed: TzifFixed { name: None, version: b'2', checksum: 0, designations: String::from(designations), posix_tz: None },
        types,
        transitions: TzifTransitionsOwned { timestamps: Vec::new(), civil_starts: Vec::new(), civil_ends: Vec::new(), infos: Vec::new() },
    }
}

// cheap stand-ins for the two string helpers: designation ranges (0,2)->"AB", (3,5)->"CD", (6,8)->"EF"
fn stub_designation<'a>(_t: &'a TzifOwned, typ: &TzifLocalTimeType) -> &'a str {
    if typ.designation.0 == 0 { "AB" } else if typ.designation.0 == 3 { "CD" } else { "EF" }
}
fn stub_find_or_create_designation(_t: &mut TzifOwned, needle: &str) -> Option<(u8, u8)> {
    if needle == "AB" { Some((0, 2)) } else if needle == "CD" { Some((3, 5)) } else { Some((6, 8)) }
}

//@harness c03_find_or_create_local_time_type
//@target shared::TzifOwned::find_or_create_local_time_type (src/shared/tzif.rs)
//@prop C03 C18 C17
//@tier quick
//@features alloc
//@timeout 600
//@bounded two existing local time types with symbolic offset/DST flag/abbreviation in {AB,CD}; query abbreviation in {AB,CD,EF}; the two string helpers (designation, find_or_create_designation) are replaced by table stubs
//@doc Some(i) => types[i] has exactly the requested offset, DST flag and abbreviation, and the previously existing types are unchanged (fattening never re-uses a type that differs in any of the three)
#[kani::proof]
#[kani::stub(crate::shared::Tzif::designation, stub_designation)]
#[kani::stub(crate::shared::Tzif::find_or_create_designation, stub_find_or_create_designation)]
#[kani::unwind(4)]
fn c03_find_or_create_local_time_type() {
    let o0: i32 = kani::any(); let o1: i32 = kani::any(); let q: i32 = kani::any();
    let d0: bool = kani::any(); let d1: bool = kani::any(); let qd: bool = kani::any();
    let a0: bool = kani::any(); let a1: bool = kani::any();
    let des = |first: bool| if first { (0u8, 2u8) } else { (3u8, 5u8) };
    let t0 = TzifLocalTimeType { offset: o0, is_dst: d0, designation: des(a0), indicator: TzifIndicator::LocalWall };
    let t1 = TzifLocalTimeType { offset: o1, is_dst: d1, designation: des(a1), indicator: TzifIndicator::LocalWall };
    let mut types = Vec::with_capacity(3); types.push(t0); types.push(t1);
    let mut tz = mk(types, "");
    let which: u8 = kani::any(); kani::assume(which < 3);
    let abbrev = if which == 0 { "AB" } else if which == 1 { "CD" } else { "EF" };
    let r = tz.find_or_create_local_time_type(IOffset { second: q }, abbrev, qd);
    if let Some(i) = r {
        let i = usize::from(i);
        assert!(i < tz.types.len());
        let t = tz.types[i];
        assert!(t.offset == q && t.is_dst == qd);
        assert!(stub_designation(&tz, &t) == abbrev);
        // an existing matching type is re-used, otherwise a new one is appended
        assert!(i <= 2);
    } else {
        assert!(false, "with fewer than 256 types the lookup/creation never fails");
    }
    assert!(tz.types[0].offset == o0 && tz.types[0].is_dst == d0 && tz.types[1].offset == o1 && tz.types[1].is_dst == d1);
}

//@harness c17_tzif_header
//@target shared::tzif::Header::{parse,data_block_len,transition_times_len,transition_types_len,local_time_types_len,time_zone_designations_len,leap_second_len,standard_wall_len,ut_local_len,is_32bit} (src/shared/tzif.rs)
//@prop C17 C05
//@tier quick
//@features alloc
//@timeout 600
//@doc for all 44 header bytes and both time sizes: parse returns Ok or Err without panicking; Ok => the six counts are the big-endian u32 fields, typecnt >= 1, charcnt >= 1, isut/isstd counts are 0 or typecnt, no bytes left; every *_len() returns Ok(exact product) or Err on usize overflow, never panics
#[kani::proof]
#[kani::stub(crate::shared::util::error::Error::from_args, stub_from_args)]
fn c17_tzif_header() {
    let bytes: [u8; 44] = kani::any();
    let time_size: usize = if kani::any() { 4 } else { 8 };
    match Header::parse(time_size, &bytes) {
        Err(_) => {}
        Ok((h, rest)) => {
            assert!(rest.is_empty());
            let f = |i: usize| u32::from_be_bytes([bytes[i], bytes[i + 1], bytes[i + 2], bytes[i + 3]]) as usize;
            assert!(bytes[0] == b'T' && bytes[1] == b'Z' && bytes[2] == b'i' && bytes[3] == b'f');
            assert!(h.version == bytes[4] && h.time_size == time_size);
            assert!(h.tzh_ttisutcnt == f(20) && h.tzh_ttisstdcnt == f(24) && h.tzh_leapcnt == f(28));
            assert!(h.tzh_timecnt == f(32) && h.tzh_typecnt == f(36) && h.tzh_charcnt == f(40));
            assert!(h.tzh_typecnt >= 1 && h.tzh_charcnt >= 1);
            assert!(h.tzh_ttisutcnt == 0 || h.tzh_ttisutcnt == h.tzh_typecnt);
            assert!(h.tzh_ttisstdcnt == 0 || h.tzh_ttisstdcnt == h.tzh_typecnt);
            assert!(h.is_32bit() == (time_size == 4));
            assert!(h.transition_times_len().ok() == h.tzh_timecnt.checked_mul(time_size));
            assert!(h.transition_types_len().ok() == Some(h.tzh_timecnt));
            assert!(h.local_time_types_len().ok() == h.tzh_typecnt.checked_mul(6));
            assert!(h.time_zone_designations_len().ok() == Some(h.tzh_charcnt));
            assert!(h.leap_second_len().ok() == h.tzh_leapcnt.checked_mul(time_size + 4));
            assert!(h.standard_wall_len().ok() == Some(h.tzh_ttisstdcnt) && h.ut_local_len().ok() == Some(h.tzh_ttisutcnt));
            let _ = h.data_block_len();
        }
    }
}

fn mk_header(time_size: usize, timecnt: usize, typecnt: usize) -> Header {
    Header { time_size, version: b'2', tzh_ttisutcnt: 0, tzh_ttisstdcnt: 0, tzh_leapcnt: 0, tzh_timecnt: timecnt, tzh_typecnt: typecnt, tzh_charcnt: 4 }
}

//@harness c17_parse_transition_types
//@target shared::TzifOwned::parse_transition_types (src/shared/tzif.rs)
//@prop C17 C05 C03
//@tier quick
//@features alloc
//@timeout 600
//@bounded 2 transitions (plus the dummy), 1..=3 local time types, input of 0..=3 symbolic bytes
//@doc Ok => every transition's type index is < tzh_typecnt (so later lookups `types[type_index]` cannot go out of bounds) and the unread rest is what follows the block; a short block is Err; never panics
#[kani::proof]
#[kani::stub(crate::shared::util::error::Error::from_args, stub_from_args)]
#[kani::unwind(5)]
fn c17_parse_transition_types() {
    let typecnt: usize = kani::any();
    kani::assume(1 <= typecnt && typecnt <= 3);
    let header = mk_header(8, 2, typecnt);
    let mut tz = mk(Vec::new(), "UTC\0");
    tz.transitions.add_with_type_index(-377705023201, 0);
    tz.transitions.add(0);
    tz.transitions.add(1);
    let data: [u8; 3] = kani::any();
    let len: usize = kani::any();
    kani::assume(len <= 3);
    let r = tz.parse_transition_types(&header, &data[..len]);
    match r {
        Ok(rest) => {
            assert!(len >= 2 && rest.len() == len - 2);
            assert!(usize::from(tz.transitions.infos[1].type_index) < typecnt);
            assert!(usize::from(tz.transitions.infos[2].type_index) < typecnt);
            assert!(tz.transitions.infos[1].type_index == data[0] && tz.transitions.infos[2].type_index == data[1]);
        }
        Err(_) => { assert!(len < 2 || usize::from(data[0]) >= typecnt || usize::from(data[1]) >= typecnt); }
    }
}

//@harness c17_parse_local_time_types
//@target shared::TzifOwned::parse_local_time_types (src/shared/tzif.rs)
//@prop C17 C05 C03
//@tier quick
//@features alloc
//@timeout 600
//@bounded 2 local time types (12 symbolic bytes), input length 0..=13
//@doc Ok => exactly tzh_typecnt types were appended, each offset within -93599..=93599 (the Offset range) and the DST flag is byte 4 == 1; out-of-range offsets and short blocks are Err; never panics
#[kani::proof]
#[kani::stub(crate::shared::util::error::Error::from_args, stub_from_args)]
#[kani::unwind(4)]
fn c17_parse_local_time_types() {
    let header = mk_header(8, 0, 2);
    let mut tz = mk(Vec::with_capacity(2), "UTC\0");
    let data: [u8; 13] = kani::any();
    let len: usize = kani::any();
    kani::assume(len <= 13);
    let r = tz.parse_local_time_types(&header, &data[..len]);
    let off = |i: usize| i32::from_be_bytes([data[i], data[i + 1], data[i + 2], data[i + 3]]);
    match r {
        Ok(rest) => {
            assert!(len >= 12 && rest.len() == len - 12 && tz.types.len() == 2);
            assert!(tz.types[0].offset == off(0) && tz.types[1].offset == off(6));
            assert!(-93599 <= tz.types[0].offset && tz.types[0].offset <= 93599 && -93599 <= tz.types[1].offset && tz.types[1].offset <= 93599);
            assert!(tz.types[0].is_dst == (data[4] == 1) && tz.types[1].is_dst == (data[10] == 1));
        }
        Err(_) => { assert!(len < 12 || off(0) < -93599 || off(0) > 93599 || off(6) < -93599 || off(6) > 93599); }
    }
}
