//@inject src/fmt/offset.rs
//! C09 / C17: `fmt::offset::Parser::parse_optional`, the look-ahead by which the datetime parsers decide whether an offset
//! follows the time.  Its decision depends on the first byte only, so every input of at most one byte is the full domain of the
//! decision; what `parse` then does with a longer input is the contract of group c17_offset.
use super::*;

//@harness c09_offset_parse_optional
//@target fmt::offset::Parser::parse_optional (src/fmt/offset.rs)
//@prop C09 C17
//@tier quick
//@mode rel
//@doc for the empty input and for every single byte b: no offset is reported (None, input untouched) exactly when the input is empty or b is none of 'z', 'Z', '+', '-'; a lone 'Z' or 'z' -- upper AND lower case, as RFC 3339 allows and the printer can emit -- is the Zulu offset with the byte consumed; a lone sign is handed to the numeric parser (Err: no digits)
#[kani::proof]
#[kani::unwind(4)]
fn c09_offset_parse_optional() {
    let p = Parser::new();
    let buf: [u8; 1] = [kani::any()];
    let len: usize = kani::any();
    kani::assume(len <= 1);
    let input = &buf[..len];
    let r = p.parse_optional(input);
    if len == 0 {
        match r { Ok(Parsed { value: None, input: rest }) => assert!(rest.len() == 0), _ => assert!(false) }
        return;
    }
    let b = buf[0];
    if b == b'z' || b == b'Z' {
        match r {
            Ok(Parsed { value: Some(v), input: rest }) => { assert!(v.is_zulu()); assert!(rest.len() == 0); }
            _ => assert!(false),
        }
    } else if b == b'+' || b == b'-' {
        assert!(r.is_err());
    } else {
        match r { Ok(Parsed { value: None, input: rest }) => assert!(rest.len() == 1 && rest[0] == b), _ => assert!(false) }
    }
}
