//@native
//@inject src/signed_duration.rs
//! C12 (floating-point API of SignedDuration), the std-feature build: here `trunc` / `round` / `fract` are std's intrinsics, not the
//! src/util/libm.rs fallbacks that the Kani group c12_sdur_float decides bit-precisely.  BOUNDED native checks of the real functions with
//! the same exact-integer oracles (a finite float is the rational m * 2^e read off its bits; nothing re-does the code's float arithmetic).
//! try_from_secs_f32 is enumerated over ALL 2^32 bit patterns.
use super::*;

const TWO63: f64 = 9223372036854775808.0;
const TWO63_32: f32 = 9223372036854775808.0;

fn wf(d: SignedDuration) -> bool {
    -1_000_000_000 < d.nanos && d.nanos < 1_000_000_000 && !(d.secs > 0 && d.nanos < 0) && !(d.secs < 0 && d.nanos > 0)
}
fn tot(d: SignedDuration) -> i128 { d.secs as i128 * 1_000_000_000 + d.nanos as i128 }
fn unrepresentable64(x: f64) -> bool { x != x || x == f64::INFINITY || x == f64::NEG_INFINITY || x < -TWO63 || x >= TWO63 }
fn unrepresentable32(x: f32) -> bool { x != x || x == f32::INFINITY || x == f32::NEG_INFINITY || x < -TWO63_32 || x >= TWO63_32 }

/// |x| = m * 2^-k for a finite non-zero f64 (k may be negative: returned as i32)
fn parts64(ax: f64) -> (u128, i32) {
    let b = ax.to_bits();
    let e = ((b >> 52) & 0x7ff) as i32;
    let mant = (b & ((1u64 << 52) - 1)) as u128;
    if e == 0 { (mant, 1074) } else { (mant | (1u128 << 52), 1075 - e) }
}
fn parts32(ax: f32) -> (u128, i32) {
    let b = ax.to_bits();
    let e = ((b >> 23) & 0xff) as i32;
    let mant = (b & ((1u32 << 23) - 1)) as u128;
    if e == 0 { (mant, 149) } else { (mant | (1u128 << 23), 150 - e) }
}

/// value facts of try_from_secs_f64 for a representable x (same oracle as c12_sdur_float::check_value64)
fn value_ok64(x: f64, d: SignedDuration) -> bool {
    if !wf(d) { return false; }
    if x >= 0.0 { if !(d.secs >= 0 && d.nanos >= 0) { return false; } } else if !(d.secs <= 0 && d.nanos <= 0) { return false; }
    let s0 = x as i64;
    let ax = if x < 0.0 { -x } else { x };
    let ds = (d.secs as i128 - s0 as i128) * if x < 0.0 { -1 } else { 1 };
    let n = ds * 1_000_000_000 + (if x < 0.0 { -(d.nanos as i128) } else { d.nanos as i128 });
    if !(ds == 0 || (ds == 1 && d.nanos == 0)) { return false; }
    if !(0 <= n && n <= 1_000_000_000) { return false; }
    if ax >= 9007199254740992.0 { return n == 0; }
    let a0 = if s0 < 0 { -(s0 as i128) } else { s0 as i128 };
    let f = ax - (a0 as f64);
    if !(0.0 <= f && f < 1.0) { return false; }
    if f == 0.0 { return n == 0; }
    let (m, k) = parts64(f);
    if k > 100 { return n == 0; }
    let k = k as u32;
    let p = m * 1_000_000_000u128;
    let q = (p >> k) as i128;
    let rem = p & ((1u128 << k) - 1);
    let half = 1u128 << (k - 1);
    let slack = 1u128 << (k - 24);
    (n == q && rem <= half + slack) || (n == q + 1 && rem + slack >= half)
}
fn value_ok32(x: f32, d: SignedDuration) -> bool {
    if !wf(d) { return false; }
    if x >= 0.0 { if !(d.secs >= 0 && d.nanos >= 0) { return false; } } else if !(d.secs <= 0 && d.nanos <= 0) { return false; }
    let s0 = x as i64;
    let ax = if x < 0.0 { -x } else { x };
    let ds = (d.secs as i128 - s0 as i128) * if x < 0.0 { -1 } else { 1 };
    let n = ds * 1_000_000_000 + (if x < 0.0 { -(d.nanos as i128) } else { d.nanos as i128 });
    if !(ds == 0 || (ds == 1 && d.nanos == 0)) { return false; }
    if !(0 <= n && n <= 1_000_000_000) { return false; }
    if ax >= 16777216.0 { return n == 0; }
    let a0 = if s0 < 0 { -(s0 as i128) } else { s0 as i128 };
    let f = ax - (a0 as f32);
    if !(0.0 <= f && f < 1.0) { return false; }
    if f == 0.0 { return n == 0; }
    let (m, k) = parts32(f);
    if k > 70 { return n == 0; }
    let k = k as u32;
    let p = m * 1_000_000_000u128;
    let nk = (n as u128) << k;
    let diff = if nk >= p { nk - p } else { p - nk };
    (diff << 24) <= (1u128 << (k + 23)) + p
}

/// xorshift64*: deterministic pseudo-random bit patterns
struct Rng(u64);
impl Rng {
    fn next(&mut self) -> u64 {
        let mut x = self.0;
        x ^= x >> 12; x ^= x << 25; x ^= x >> 27;
        self.0 = x;
        x.wrapping_mul(0x2545F4914F6CDD1D)
    }
}

/// the structured f64 sample shared by the f64 checks: every power of two 2^-1074 .. 2^1023 and its 4 neighbours on each side (both signs),
/// zero, the neighbours of every integer k * 10^j and of k + 1/2 (ties of the seconds), of every multiple of 10^-9 and of every
/// half-nanosecond tie (c + 1/2) * 10^-9 near 0, 1, 12, 2^20, 2^31, 2^52, and `nrand` pseudo-random bit patterns (NaNs and infinities included)
fn for_each_f64(nrand: u64, mut f: impl FnMut(f64)) {
    let mut around = |x: f64, f: &mut dyn FnMut(f64)| {
        let b = x.to_bits();
        for d in 0..=4u64 {
            for bb in [b.wrapping_add(d), b.wrapping_sub(d)] {
                let y = f64::from_bits(bb);
                f(y); f(-y);
            }
        }
    };
    for e in 0..=0x7ffu64 { around(f64::from_bits(e << 52), &mut f); }
    around(f64::from_bits(1), &mut f);
    for base in [0.0f64, 1.0, 12.0, 1048576.0, 2147483648.0, 4503599627370496.0, 9007199254740992.0, 9223372036854774784.0] {
        for c in 0..2000u64 {
            around(base + (c as f64) * 1e-9, &mut f);
            around(base + (c as f64 + 0.5) * 1e-9, &mut f);
            around(base + 1.0 - (c as f64) * 1e-9, &mut f);
            around(base + 1.0 - (c as f64 + 0.5) * 1e-9, &mut f);
            around(base + (c as f64) * 0.0005, &mut f);
        }
    }
    let mut r = Rng(0x9E3779B97F4A7C15);
    for _ in 0..nrand {
        let b = r.next();
        f(f64::from_bits(b));
        // the same mantissa with an exponent in the interesting window 2^-40 .. 2^64
        let e = 1023 - 40 + (r.next() % 105);
        f(f64::from_bits((b & 0x800f_ffff_ffff_ffff) | (e << 52)));
    }
}

//@harness c12_native_try_from_secs_f32_all
//@target SignedDuration::try_from_secs_f32 (src/signed_duration.rs), std build
//@prop C12 C05
//@tier thorough
//@mode native
//@timeout 1500
//@bounded ALL 2^32 f32 bit patterns (exhaustive for this function), std-feature build, release profile
//@doc for every f32 x other than 2^63: Err exactly when x is not finite or outside [-2^63, 2^63); otherwise Ok, well-formed, of the sign of x, whole seconds == trunc(x) exactly and the sub-second part n within the documented f32 precision of t = fract(x) * 10^9: |n - t| <= 1/2 + t * 2^-24 over exact rationals (2^63 itself is the known defect, see c12_sdur_float::c12_try_from_secs_f32_err_iff)
#[test]
fn c12_native_try_from_secs_f32_all() {
    let mut bad = 0u64;
    for b in 0..=u32::MAX {
        let x = f32::from_bits(b);
        if x == TWO63_32 { continue; }
        let r = SignedDuration::try_from_secs_f32(x);
        let ok = match r { Err(_) => unrepresentable32(x), Ok(d) => !unrepresentable32(x) && value_ok32(x, d) };
        if !ok {
            if bad < 5 { std::println!("WITNESS x={:e} bits={:#x} got={:?}", x, b, r.map(|d| (d.secs, d.nanos))); }
            bad += 1;
        }
    }
    assert!(bad == 0, "{} f32 values violate the contract of try_from_secs_f32", bad);
}

//@harness c12_native_try_from_secs_f64_sample
//@target SignedDuration::try_from_secs_f64 (src/signed_duration.rs), std build
//@prop C12 C05
//@tier quick
//@mode native
//@timeout 1500
//@bounded the structured f64 sample of for_each_f64 (all powers of two and neighbours, nanosecond multiples and half-nanosecond ties near 8 bases, 2 x 20 million pseudo-random bit patterns), std-feature build
//@doc for every sampled f64 x other than 2^63: Err exactly when x is not finite or outside [-2^63, 2^63); otherwise Ok, well-formed, of the sign of x, whole seconds == trunc(x) exactly, sub-second part n with |n - fract(x) * 10^9| <= 1/2 + 2^-24 over exact rationals (the full-domain statement for the no-std build is c12_sdur_float::c12_try_from_secs_f64_value)
#[test]
fn c12_native_try_from_secs_f64_sample() {
    let mut bad = 0u64;
    let mut seen = 0u64;
    for_each_f64(20_000_000, |x| {
        if x == TWO63 { return; }
        seen += 1;
        let r = SignedDuration::try_from_secs_f64(x);
        let ok = match r { Err(_) => unrepresentable64(x), Ok(d) => !unrepresentable64(x) && value_ok64(x, d) };
        if !ok {
            if bad < 5 { std::println!("WITNESS x={:e} bits={:#x} got={:?}", x, x.to_bits(), r.map(|d| (d.secs, d.nanos))); }
            bad += 1;
        }
    });
    assert!(seen > 40_000_000);
    assert!(bad == 0, "{} sampled f64 values violate the contract of try_from_secs_f64", bad);
}

//@harness c12_native_from_secs_panics_iff_err
//@target SignedDuration::from_secs_f64, from_secs_f32 (src/signed_duration.rs), std build
//@prop C12 C05
//@tier quick
//@mode native
//@timeout 900
//@bounded the structured f64 sample with 200 000 pseudo-random patterns; for f32 every 4099th bit pattern plus all powers of two and their neighbours
//@doc from_secs_f64(x) / from_secs_f32(x) panic exactly where try_from_secs_f64 / f32 return Err, and otherwise return the same value (the no-panic half is decided on the full domain by c12_sdur_float::c12_from_secs_f64_is_try / _f32_is_try)
#[test]
fn c12_native_from_secs_panics_iff_err() {
    let hook = std::panic::take_hook();
    std::panic::set_hook(std::boxed::Box::new(|_| {}));
    let mut bad = 0u64;
    let mut msgs: std::vec::Vec<std::string::String> = std::vec::Vec::new();
    for_each_f64(200_000, |x| {
        let t = SignedDuration::try_from_secs_f64(x);
        let p = std::panic::catch_unwind(|| SignedDuration::from_secs_f64(x));
        let ok = match (&t, &p) { (Err(_), Err(_)) => true, (Ok(a), Ok(b)) => a == b, _ => false };
        if !ok { if bad < 5 { msgs.push(std::format!("WITNESS f64 x={:e}", x)); } bad += 1; }
    });
    let mut check32 = |x: f32| {
        let t = SignedDuration::try_from_secs_f32(x);
        let p = std::panic::catch_unwind(|| SignedDuration::from_secs_f32(x));
        let ok = match (&t, &p) { (Err(_), Err(_)) => true, (Ok(a), Ok(b)) => a == b, _ => false };
        if !ok { if bad < 5 { msgs.push(std::format!("WITNESS f32 x={:e}", x)); } bad += 1; }
    };
    let mut b = 0u64;
    while b <= u32::MAX as u64 { check32(f32::from_bits(b as u32)); b += 4099; }
    for e in 0..=0xffu32 { for d in 0..=3u32 { for s in [0u32, 0x8000_0000] {
        check32(f32::from_bits(((e << 23).wrapping_add(d)) | s)); check32(f32::from_bits(((e << 23).wrapping_sub(d)) | s));
    } } }
    std::panic::set_hook(hook);
    for m in &msgs { std::println!("{}", m); }
    assert!(bad == 0, "{} inputs on which from_secs_* and try_from_secs_* disagree", bad);
}

//@harness c12_native_mul_div_panic_iff_unrepresentable
//@target SignedDuration::mul_f64, div_f64, mul_f32, div_f32 (src/signed_duration.rs), std build
//@prop C12 C05
//@tier quick
//@mode native
//@timeout 900
//@bounded 37 boundary durations (0, +-1 ns, +-1 s, +-(2^k s) for k = 10, 20, 31, 52, 53, 62, MIN, MAX, values with nanos = +-999_999_999) x 58 factors x {mul, div} x {f64, f32} (0, +-1, +-0.5, +-2, +-1e-9, +-1e9, +-10^(+-18), powers of two 2^-70 .. 2^70 step 10, subnormal, MAX, infinities, NaN)
//@doc mul_f64 / div_f64 / mul_f32 / div_f32 panic exactly when the float product (quotient) p of as_secs_f* and the factor is not finite or try_from_secs_f*(p) is Err ("panics if the result is not finite or overflows"), and otherwise return try_from_secs_f*(p) -- the no-panic half is decided for all inputs by c12_sdur_float::c12_mul_div_f64_composition / _f32_composition
#[test]
fn c12_native_mul_div_panic_iff_unrepresentable() {
    let hook = std::panic::take_hook();
    std::panic::set_hook(std::boxed::Box::new(|_| {}));
    let mut ds: std::vec::Vec<SignedDuration> = std::vec::Vec::new();
    ds.push(SignedDuration::ZERO); ds.push(SignedDuration::MIN); ds.push(SignedDuration::MAX);
    for sgn in [1i64, -1] {
        ds.push(SignedDuration::new_unchecked(0, sgn as i32));
        ds.push(SignedDuration::new_unchecked(0, 999_999_999 * sgn as i32));
        ds.push(SignedDuration::new_unchecked(sgn, 0));
        ds.push(SignedDuration::new_unchecked(sgn, 999_999_999 * sgn as i32));
        for k in [10u32, 20, 31, 52, 53, 62] {
            ds.push(SignedDuration::new_unchecked(sgn << k, 0));
            ds.push(SignedDuration::new_unchecked(sgn << k, 500_000_000 * sgn as i32));
        }
        ds.push(SignedDuration::new_unchecked(sgn * i64::MAX, 0));
    }
    let mut ks: std::vec::Vec<f64> = std::vec::Vec::new();
    for v in [0.0f64, 1.0, 0.5, 2.0, 1e-9, 1e9, 1e18, 1e-18, f64::MIN_POSITIVE / 4.0, f64::MAX, f64::INFINITY, f64::NAN, 0.9999999999999999, 1.0000000000000002] { ks.push(v); ks.push(-v); }
    let mut e = -70i32; while e <= 70 { ks.push((2.0f64).powi(e)); ks.push(-(2.0f64).powi(e)); e += 10; }
    let mut bad = 0u64;
    let mut msgs: std::vec::Vec<std::string::String> = std::vec::Vec::new();
    for &d in &ds { for &k in &ks { for div in [false, true] {
        let p = if div { d.as_secs_f64() / k } else { k * d.as_secs_f64() };
        let t = SignedDuration::try_from_secs_f64(p);
        let r = std::panic::catch_unwind(|| if div { d.div_f64(k) } else { d.mul_f64(k) });
        let ok = match (&t, &r) { (Err(_), Err(_)) => true, (Ok(a), Ok(b)) => a == b, _ => false };
        if !ok { if bad < 5 { msgs.push(std::format!("WITNESS f64 d=({}, {}) k={:e} div={}", d.secs, d.nanos, k, div)); } bad += 1; }
        let k32 = k as f32;
        let p = if div { d.as_secs_f32() / k32 } else { k32 * d.as_secs_f32() };
        let t = SignedDuration::try_from_secs_f32(p);
        let r = std::panic::catch_unwind(|| if div { d.div_f32(k32) } else { d.mul_f32(k32) });
        let ok = match (&t, &r) { (Err(_), Err(_)) => true, (Ok(a), Ok(b)) => a == b, _ => false };
        if !ok { if bad < 5 { msgs.push(std::format!("WITNESS f32 d=({}, {}) k={:e} div={}", d.secs, d.nanos, k32, div)); } bad += 1; }
    } } }
    std::panic::set_hook(hook);
    for m in &msgs { std::println!("{}", m); }
    assert!(ds.len() == 37 && ks.len() == 58);
    assert!(bad == 0, "{} (duration, factor) pairs on which mul/div and try_from_secs disagree", bad);
}

/// |r * unit - a| < ulps * ulp(r) * unit over exact integers, for a finite normal r = m * 2^e > 0 (m in [2^52, 2^53)) and the exact count a >= 0 in
/// units of 1/unit (unit = 10^9: r in seconds, a in nanoseconds; unit = 10^6: r in milliseconds)
fn within_ulps64(r: f64, a: u128, unit: u128, ulps: u128) -> bool {
    let b = r.to_bits();
    let be = ((b >> 52) & 0x7ff) as i32;
    if be == 0 || be == 0x7ff || (b >> 63) != 0 { return false; }
    let m = ((b & ((1u64 << 52) - 1)) | (1u64 << 52)) as u128;
    let e = be - 1075;
    let mu = m * unit;
    if e >= 0 {
        if e > 20 { return false; }
        let lhs = mu << (e as u32);
        let d = if lhs >= a { lhs - a } else { a - lhs };
        d < (ulps * unit) << (e as u32)
    } else {
        let k = (-e) as u32;
        if k > 100 || a.leading_zeros() < k + 2 { return false; }
        let rhs = a << k;
        let d = if mu >= rhs { mu - rhs } else { rhs - mu };
        d < ulps * unit
    }
}
fn within_ulps32(r: f32, a: u128, unit: u128, ulps: u128) -> bool {
    let b = r.to_bits();
    let be = ((b >> 23) & 0xff) as i32;
    if be == 0 || be == 0xff || (b >> 31) != 0 { return false; }
    let m = ((b & ((1u32 << 23) - 1)) | (1u32 << 23)) as u128;
    let e = be - 150;
    let mu = m * unit;
    if e >= 0 {
        if e > 60 { return false; }
        let lhs = mu << (e as u32);
        let d = if lhs >= a { lhs - a } else { a - lhs };
        d < (ulps * unit) << (e as u32)
    } else {
        let k = (-e) as u32;
        if k > 100 || a.leading_zeros() < k + 2 { return false; }
        let rhs = a << k;
        let d = if mu >= rhs { mu - rhs } else { rhs - mu };
        d < ulps * unit
    }
}

/// the duration sample: seconds in {0, 1, 2, 59, 60, 2^k - 1, 2^k, 2^k + 1 (k = 1..62), i64::MAX} and their negations and i64::MIN, each with the
/// sub-second parts {0, 1, 2, 1000, 10^6, 123_456_789, 499_999_999, 500_000_000, 500_000_001, 999_999_998, 999_999_999} of the matching sign
/// (both signs for zero seconds), then `nrand` pseudo-random well-formed durations whose seconds have a uniformly random bit length
/// (at most `maxbits`) -- `maxbits` < 63 restricts the whole sample to |secs| < 2^maxbits
fn for_each_sdur(nrand: u64, maxbits: u32, mut f: impl FnMut(SignedDuration)) {
    let subs = [0i32, 1, 2, 1000, 1_000_000, 123_456_789, 499_999_999, 500_000_000, 500_000_001, 999_999_998, 999_999_999];
    let mut secs: std::vec::Vec<i64> = std::vec::Vec::new();
    for v in [0i64, 1, 2, 59, 60, i64::MAX] { secs.push(v); }
    for k in 1..=62u32 { secs.push((1i64 << k) - 1); secs.push(1i64 << k); secs.push((1i64 << k) + 1); }
    for &s in &secs {
        if maxbits < 63 && s >= (1i64 << maxbits) { continue; }
        for &n in &subs {
            f(SignedDuration::new_unchecked(s, n));
            f(SignedDuration::new_unchecked(-s, -n));
            if s == 0 { f(SignedDuration::new_unchecked(0, -n)); }
        }
    }
    if maxbits >= 63 { for &n in &subs { f(SignedDuration::new_unchecked(i64::MIN, -n)); } }
    let mut r = Rng(0xD1B54A32D192ED03);
    for _ in 0..nrand {
        let bits = (r.next() % (maxbits as u64 + 1)) as u32;
        let s = if bits == 0 { 0 } else { (r.next() >> (64 - bits)) as i64 };
        let n = (r.next() % 1_000_000_000) as i32;
        if r.next() & 1 == 0 { f(SignedDuration::new_unchecked(s, n)); } else { f(SignedDuration::new_unchecked(-s, -n)); }
    }
}

//@harness c12_native_as_float_accuracy
//@target SignedDuration::as_secs_f64, as_secs_f32, as_millis_f64, as_millis_f32 (src/signed_duration.rs)
//@prop C12
//@tier quick
//@mode native
//@timeout 900
//@bounded the duration sample of for_each_sdur (all power-of-two second counts and their neighbours x 11 sub-second parts, both signs, MIN and MAX) plus 20 million pseudo-random well-formed durations
//@doc within the bound: each as_* result is finite, has the sign of d, and denotes d to within |r * unit - tot(d)| < U ulp(r) * unit over exact integers, U = 1 for as_secs_f64, 2 for as_millis_f64 and as_secs_f32, 3 for as_millis_f32; as_secs_f64 is monotone between d and d + 1 ns (the other three are not: `secs as f32`, `secs * 1000` round before the sub-second part is added, e.g. as_millis_f32 of -1048575 s and of -1048574.999999999 s; nothing in the documentation promises it)
#[test]
fn c12_native_as_float_accuracy() {
    let mut bad = 0u64;
    let mut seen = 0u64;
    for_each_sdur(20_000_000, 63, |d| {
        seen += 1;
        let t = tot(d);
        let a = t.unsigned_abs();
        let (r1, r2, r3, r4) = (d.as_secs_f64(), d.as_millis_f64(), d.as_secs_f32(), d.as_millis_f32());
        let sg64 = |r: f64| (t > 0) == (r > 0.0) && (t < 0) == (r < 0.0) && r.is_finite();
        let sg32 = |r: f32| (t > 0) == (r > 0.0) && (t < 0) == (r < 0.0) && r.is_finite();
        let mut ok = sg64(r1) && sg64(r2) && sg32(r3) && sg32(r4);
        if ok && t != 0 {
            ok = within_ulps64(r1.abs(), a, 1_000_000_000, 1) && within_ulps64(r2.abs(), a, 1_000_000, 2)
                && within_ulps32(r3.abs(), a, 1_000_000_000, 2) && within_ulps32(r4.abs(), a, 1_000_000, 3);
        }
        if ok {
            if let Some(e) = d.checked_add(SignedDuration::new_unchecked(0, 1)) {
                ok = r1 <= e.as_secs_f64();
            }
        }
        if !ok {
            if bad < 5 { std::println!("WITNESS d=({}, {}) as_secs_f64={:e} as_millis_f64={:e} as_secs_f32={:e} as_millis_f32={:e}", d.secs, d.nanos, r1, r2, r3, r4); }
            bad += 1;
        }
    });
    assert!(seen > 20_000_000);
    assert!(bad == 0, "{} sampled durations violate the accuracy / sign / monotonicity contract of as_*_f*", bad);
}

//@harness c12_native_mul_div_identities
//@target SignedDuration::mul_f64, div_f64, mul_f32, div_f32, as_secs_f64, from_secs_f64 (src/signed_duration.rs)
//@prop C12
//@tier quick
//@mode native
//@timeout 900
//@bounded the duration sample restricted to |secs| < 2^20 (12 days) plus 10 million pseudo-random durations in that range; for f32: every whole number of seconds with |secs| <= 2^24 is out of reach of a quick run, so every 7th
//@doc exact arithmetic where the float has the precision for it: within the bound, multiplying or dividing by 1.0 returns d itself (from_secs_f64(as_secs_f64(d)) == d: the nanosecond count survives the round trip), by -1.0 returns -d, by 2.0 / 0.5 returns d + d, multiplying by 0.0 returns the zero duration; the f32 variants do the same on whole seconds
#[test]
fn c12_native_mul_div_identities() {
    let mut bad = 0u64;
    let mut seen = 0u64;
    for_each_sdur(10_000_000, 20, |d| {
        seen += 1;
        let neg = SignedDuration::new_unchecked(-d.secs, -d.nanos);
        let twice = d.checked_add(d).unwrap();
        let ok = d.mul_f64(1.0) == d && d.div_f64(1.0) == d && d.mul_f64(-1.0) == neg && d.div_f64(-1.0) == neg
            && d.mul_f64(0.0) == SignedDuration::ZERO && d.mul_f64(2.0) == twice && d.div_f64(0.5) == twice
            && SignedDuration::from_secs_f64(d.as_secs_f64()) == d;
        if !ok { if bad < 5 { std::println!("WITNESS f64 d=({}, {})", d.secs, d.nanos); } bad += 1; }
    });
    let mut s = -16777216i64;
    while s <= 16777216 {
        let d = SignedDuration::new_unchecked(s, 0);
        let neg = SignedDuration::new_unchecked(-s, 0);
        let ok = d.mul_f32(1.0) == d && d.div_f32(1.0) == d && d.mul_f32(-1.0) == neg && d.div_f32(-1.0) == neg && d.mul_f32(0.0) == SignedDuration::ZERO;
        if !ok { if bad < 5 { std::println!("WITNESS f32 d=({}, 0)", s); } bad += 1; }
        s += 7;
    }
    assert!(seen > 10_000_000);
    assert!(bad == 0, "{} sampled durations violate an exact identity of mul_f* / div_f*", bad);
}

//@harness c12_native_div_duration
//@target SignedDuration::div_duration_f64, div_duration_f32 (src/signed_duration.rs)
//@prop C12
//@tier quick
//@mode native
//@timeout 900
//@bounded 10 million pseudo-random pairs of durations with nanosecond counts below 2^53 (bit lengths uniform), 10 million pairs below 2^24 for f32, and all pairs among every third element of the 4246-element boundary sample of for_each_sdur
//@doc within the bound: a / b is NaN exactly for 0 / 0, +-infinity exactly for non-zero / 0 (sign of a), otherwise finite, of the sign sign(a) * sign(b), zero exactly when a is zero, a / a == 1.0; and whenever both nanosecond counts are below 2^53 (2^24 for f32) the result is the correctly rounded quotient of the exact counts: bit-identical to (tot(a) as f64) / (tot(b) as f64), both conversions being exact
#[test]
fn c12_native_div_duration() {
    let mut bad = 0u64;
    let mut check = |a: SignedDuration, b: SignedDuration| {
        let (ta, tb) = (tot(a), tot(b));
        let (r, r32) = (a.div_duration_f64(b), a.div_duration_f32(b));
        let pos = (ta > 0 && tb > 0) || (ta < 0 && tb < 0);
        let mut ok = if tb == 0 {
            if ta == 0 { r.is_nan() && r32.is_nan() } else if ta > 0 { r == f64::INFINITY && r32 == f32::INFINITY } else { r == f64::NEG_INFINITY && r32 == f32::NEG_INFINITY }
        } else {
            r.is_finite() && r32.is_finite() && (r == 0.0) == (ta == 0) && (r32 == 0.0) == (ta == 0) && (r > 0.0) == pos && (r32 > 0.0) == pos
                && (ta != tb || (r == 1.0 && r32 == 1.0))
        };
        if ok && tb != 0 {
            if ta.unsigned_abs() < (1u128 << 53) && tb.unsigned_abs() < (1u128 << 53) {
                let q = (ta as f64) / (tb as f64);
                ok = r.to_bits() == q.to_bits() || (r == 0.0 && q == 0.0);
            }
            if ok && ta.unsigned_abs() < (1u128 << 24) && tb.unsigned_abs() < (1u128 << 24) {
                let q = (ta as f32) / (tb as f32);
                ok = r32.to_bits() == q.to_bits() || (r32 == 0.0 && q == 0.0);
            }
        }
        if !ok {
            if bad < 5 { std::println!("WITNESS a=({}, {}) b=({}, {}) f64={:e} f32={:e}", a.secs, a.nanos, b.secs, b.nanos, r, r32); }
            bad += 1;
        }
    };
    let of_tot = |t: i128| SignedDuration::new_unchecked((t / 1_000_000_000) as i64, (t % 1_000_000_000) as i32);
    let mut r = Rng(0xA0761D6478BD642F);
    for lim in [53u64, 24] {
        for _ in 0..10_000_000u64 {
            let (ba, bb) = (r.next() % (lim + 1), r.next() % (lim + 1));
            let ta = if ba == 0 { 0 } else { (r.next() >> (64 - ba)) as i128 };
            let tb = if bb == 0 { 0 } else { (r.next() >> (64 - bb)) as i128 };
            let (sa, sb) = (if r.next() & 1 == 0 { 1 } else { -1 }, if r.next() & 1 == 0 { 1 } else { -1 });
            check(of_tot(sa * ta), of_tot(sb * tb));
        }
    }
    let mut sample: std::vec::Vec<SignedDuration> = std::vec::Vec::new();
    for_each_sdur(0, 63, |d| sample.push(d));
    let mut i = 0; while i < sample.len() { let mut j = 0; while j < sample.len() { check(sample[i], sample[j]); j += 3; } i += 3; }
    assert!(bad == 0, "{} sampled pairs violate the contract of div_duration_f*", bad);
}

//@harness c12_native_mul_div_composition_random
//@target SignedDuration::mul_f64, div_f64, mul_f32, div_f32 (src/signed_duration.rs), std build
//@prop C12 C05
//@tier quick
//@mode native
//@timeout 900
//@bounded 2 million pseudo-random (duration, factor) pairs: durations of for_each_sdur's random part, factors with a random mantissa and an exponent in 2^-40 .. 2^40
//@doc within the bound: whenever p = factor * as_secs_f*(d) (resp. as_secs_f*(d) / factor) is representable, mul_f* / div_f* return exactly try_from_secs_f*(p) without panicking; otherwise they panic
#[test]
fn c12_native_mul_div_composition_random() {
    let hook = std::panic::take_hook();
    std::panic::set_hook(std::boxed::Box::new(|_| {}));
    let mut r = Rng(0xE7037ED1A0B428DB);
    let mut bad = 0u64;
    let mut msgs: std::vec::Vec<std::string::String> = std::vec::Vec::new();
    let mut ds: std::vec::Vec<SignedDuration> = std::vec::Vec::new();
    for_each_sdur(2_000_000, 63, |d| ds.push(d));
    for &d in &ds {
        let b = r.next();
        let e = 1023 - 40 + (r.next() % 81);
        let k = f64::from_bits((b & 0x800f_ffff_ffff_ffff) | (e << 52));
        let div = r.next() & 1 == 0;
        let p = if div { d.as_secs_f64() / k } else { k * d.as_secs_f64() };
        let t = SignedDuration::try_from_secs_f64(p);
        let got = std::panic::catch_unwind(|| if div { d.div_f64(k) } else { d.mul_f64(k) });
        let ok = match (&t, &got) { (Err(_), Err(_)) => true, (Ok(a), Ok(b)) => a == b, _ => false };
        if !ok { if bad < 5 { msgs.push(std::format!("WITNESS f64 d=({}, {}) k={:e} div={}", d.secs, d.nanos, k, div)); } bad += 1; }
        let k32 = k as f32;
        let p = if div { d.as_secs_f32() / k32 } else { k32 * d.as_secs_f32() };
        let t = SignedDuration::try_from_secs_f32(p);
        let got = std::panic::catch_unwind(|| if div { d.div_f32(k32) } else { d.mul_f32(k32) });
        let ok = match (&t, &got) { (Err(_), Err(_)) => true, (Ok(a), Ok(b)) => a == b, _ => false };
        if !ok { if bad < 5 { msgs.push(std::format!("WITNESS f32 d=({}, {}) k={:e} div={}", d.secs, d.nanos, k32, div)); } bad += 1; }
    }
    std::panic::set_hook(hook);
    for m in &msgs { std::println!("{}", m); }
    assert!(bad == 0, "{} (duration, factor) pairs on which mul/div and try_from_secs disagree", bad);
}
