//@native
//@inject src/fmt/temporal/mod.rs
//! C09 (Zoned text round trip, incl. "a period with a sub-minute offset"): BOUNDED native check through the real printer and
//! parser for every zone of the bundled IANA database.  The zoned printer/parser path (zone annotation, offset matching with
//! minute rounding, database lookup) is outside what the Kani groups c09_* reach.
use super::*;

//@harness c09_zoned_roundtrip_bundled_db_native
//@target fmt::temporal: Zoned Display / FromStr (DateTimePrinter::print_zoned, DateTimeParser::parse_zoned, ParsedDateTime::to_ambiguous_zoned) (src/fmt/temporal/*.rs)
//@prop C09
//@tier quick
//@mode native
//@features tzdb-bundle-always
//@timeout 1200
//@bounded every zone of the bundled tz database x instants {Timestamp::MIN + 1 day (local mean time, usually a sub-minute offset), the first 6 transitions -+ 1 s and -+ 30 min (folds and gaps of early history), 1970-01-01, 2024-07-01, 2024-11-03T05:30Z and 06:30Z} (native enumeration)
//@doc within the stated bound, except where two different instants print the SAME text (a fold whose two offsets round to the same minute: known finding F28): parse(print(z)) has the same instant, the same offset, the same civil datetime and the same time zone name as z -- also when the zone's offset has non-zero seconds (the printed offset is then rounded to the minute, also across an hour: -06:59:56 prints as -07:00)
#[test]
fn c09_zoned_roundtrip_bundled_db_native() {
    use crate::{tz::TimeZoneDatabase, Timestamp, Zoned};
    let db = TimeZoneDatabase::bundled();
    let names: std::vec::Vec<std::string::String> = db.available().map(|n| std::string::String::from(n.as_str())).collect();
    assert!(names.len() > 300, "bundled database not available ({} names)", names.len());
    let (mut n, mut bad, mut subminute, mut ambiguous) = (0u64, 0u64, 0u64, 0u64);
    for name in &names {
        let tz = db.get(name).unwrap();
        let mut instants: std::vec::Vec<Timestamp> = std::vec::Vec::new();
        instants.push(Timestamp::from_second(Timestamp::MIN.as_second() + 86_400 * 2).unwrap());
        for s in [0i64, 1_719_792_000, 1_730_611_800, 1_730_615_400] { instants.push(Timestamp::from_second(s).unwrap()); }
        for tr in tz.following(Timestamp::MIN).take(6) {
            let t = tr.timestamp().as_second();
            for d in [-1800i64, -1, 0, 1, 1800] { if let Ok(ts) = Timestamp::from_second(t + d) { instants.push(ts); } }
        }
        for ts in instants {
            let z = Zoned::new(ts, tz.clone());
            if z.offset().seconds() % 60 != 0 { subminute += 1; }
            let text = std::format!("{}", z);
            n += 1;
            match DateTimeParser::new().parse_zoned_with(&db, &text) {
                Ok(back) => {
                    let same = back.timestamp() == z.timestamp() && back.offset() == z.offset() && back.datetime() == z.datetime()
                        && back.time_zone().iana_name() == z.time_zone().iana_name();
                    if !same {
                        // two DIFFERENT instants with the SAME printed text (a fold whose two offsets round to the same minute):
                        // no parser can tell them apart -- known finding F28, counted separately
                        if std::format!("{}", back) == text { ambiguous += 1; }
                        else { if bad < 5 { std::println!("WITNESS {} parsed back as {}", text, back); } bad += 1; }
                    }
                }
                Err(e) => { if bad < 5 { std::println!("WITNESS {} does not parse: {}", text, e); } bad += 1; }
            }
        }
    }
    assert!(subminute > 100, "too few sub-minute offsets exercised: {}", subminute);
    assert!(ambiguous < 100, "implausibly many ambiguous texts: {}", ambiguous);
    assert!(bad == 0, "{} of {} zoned datetimes do not round-trip ({} more print a text shared by two instants)", bad, n, ambiguous);
}
