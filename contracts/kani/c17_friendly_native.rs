//@native
//@inject src/fmt/friendly/parser.rs
//! C17 (friendly duration parser): accumulation of unit values into a SignedDuration never panics near the representable
//! limits.  The Kani formulation (symbolic first value, 3-byte text) does not finish in 20 min (parked: _parked_c17_friendly_kani.txt);
//! this is the BOUNDED native stand-in on the real parser.
use super::*;

//@harness c17_friendly_duration_limits_native
//@target fmt::friendly::parser::SpanParser::{parse_duration, parse_units_to_duration}, duration_unit_value, fractional_time_to_duration (src/fmt/friendly/parser.rs)
//@prop C17 C05
//@tier quick
//@mode native
//@timeout 900
//@bounded texts "<v>[.<f>]<unit>[ ago]" and "<v><unit> <w>[.<f>]<unit2>" for v within +-3 of the largest whole count of each unit (h, m, s, ms, us, ns) that fits a SignedDuration and of the next power of ten, f in {none, 0, 1, 5, 9, 50, 99, 500000000, 999999999}, w in 0..=61 (native enumeration, about 60 000 texts)
//@doc within the stated bound parsing returns Ok or Err and never panics; every Ok value is a well-formed SignedDuration
#[test]
fn c17_friendly_duration_limits_native() {
    let units: [(&str, i128); 6] = [("h", 3600 * 1_000_000_000), ("m", 60 * 1_000_000_000), ("s", 1_000_000_000), ("ms", 1_000_000), ("us", 1_000), ("ns", 1)];
    let fracs = ["", ".0", ".1", ".5", ".9", ".50", ".99", ".500000000", ".999999999"];
    let max_ns: i128 = (i64::MAX as i128) * 1_000_000_000 + 999_999_999;
    let mut n = 0u64;
    let mut panics = 0u64;
    let mut bad = 0u64;
    let p = SpanParser::new();
    let mut check = |text: &str| {
        n += 1;
        let r = std::panic::catch_unwind(std::panic::AssertUnwindSafe(|| p.parse_duration(text.as_bytes())));
        match r {
            Err(_) => { if panics < 5 { std::println!("WITNESS panic on {:?}", text); } panics += 1; }
            Ok(Ok(parsed)) => {
                let d = parsed;
                let (s, ns) = (d.as_secs(), d.subsec_nanos());
                if !(-999_999_999 <= ns && ns <= 999_999_999) || (s > 0 && ns < 0) || (s < 0 && ns > 0) { bad += 1; }
            }
            Ok(Err(_)) => {}
        }
    };
    for (ui, (u, per)) in units.iter().enumerate() {
        let top = max_ns / per;
        let mut cands: std::vec::Vec<i128> = std::vec::Vec::new();
        for d in -3i128..=3 { cands.push(top + d); }
        let mut p10: i128 = 1; while p10 <= top { p10 *= 10; }
        for d in -3i128..=3 { cands.push(p10 / 10 + d); cands.push(p10 + d); }
        cands.push(i64::MAX as i128); cands.push(i64::MAX as i128 - 1);
        for v in cands.iter().filter(|v| **v >= 0) {
            for f in fracs {
                for ago in ["", " ago"] {
                    check(&std::format!("{}{}{}{}", v, f, u, ago));
                    check(&std::format!("-{}{}{}", v, f, u));
                }
                // a second, smaller unit with a fraction on top of a near-maximal first unit
                if ui + 1 < units.len() {
                    let u2 = units[ui + 1].0;
                    for w in [0i128, 1, 29, 30, 31, 59, 60, 61] {
                        check(&std::format!("{}{} {}{}{}", v, u, w, f, u2));
                    }
                }
            }
        }
    }
    assert!(panics == 0 && bad == 0, "{} panics, {} ill-formed results over {} texts", panics, bad, n);
}
