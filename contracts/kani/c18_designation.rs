//@inject src/shared/tzif.rs
//! C18 / C03: `TzifOwned::find_or_create_designation` (src/shared/tzif.rs) builds the designation table faithfully: the
//! range it returns spells exactly the requested abbreviation (no trailing NUL), an existing entry is re-used (the
//! first one, whole entries only - neither a prefix nor a suffix of a longer entry counts), a new entry is appended
//! NUL-terminated and nothing that was there before changes.
//!
//! Bounded stand-ins (String / str::find are outside what Kani decides symbolically), never counted as proved.
//! Measured (Kani 0.68): the variant parked in c17_tzif.rs did not finish because the appended bytes forced a
//! reallocation of the String (`String::from("AB\0CD\0")` has capacity == length; 337 s for a 2-byte table, > 600 s for
//! the 6-byte one).  With spare capacity in the table (no reallocation on append; the function's result does not
//! depend on the capacity) the same harness takes 13 s.  Needle alternatives inside one harness must all have the
//! same length: a symbolic choice among string literals of different lengths makes CBMC's model of the
//! `push_str` memcpy copy arbitrary bytes (spurious failure, reproduced without any jiff code).  Symbolic table
//! and needle *contents* (4 + 2 symbolic letters) did not finish in 600 s.
use super::*;
use alloc::string::String;
use alloc::vec::Vec;
use crate::shared::{TzifFixed, TzifTransitionsOwned};

/// a TzifOwned whose designation table has room for the appended entry (capacity 16)
fn mk(designations: &str) -> TzifOwned {
    let mut d = String::with_capacity(16);
    d.push_str(designations);
    TzifOwned {
        fixed: TzifFixed { name: None, version: b'2', checksum: 0, designations: d, posix_tz: None },
        types: Vec::new(),
        transitions: TzifTransitionsOwned { timestamps: Vec::new(), civil_starts: Vec::new(), civil_ends: Vec::new(), infos: Vec::new() },
    }
}

//@harness c18_designation_ab_cd
//@target shared::TzifOwned::find_or_create_designation (src/shared/tzif.rs)
//@prop C18 C03 C17
//@tier quick
//@features alloc
//@timeout 600
//@bounded designation table "AB\0CD\0" (concrete, capacity 16), needle in {AB,CD,EF}
//@doc Some((a,b)) => designations[a..b] == needle (no trailing NUL), existing entries are re-used, a new entry is appended NUL-terminated; never None
#[kani::proof]
#[kani::unwind(12)]
fn c18_designation_ab_cd() {
    let mut tz = mk("AB\0CD\0");
    let which: u8 = kani::any(); kani::assume(which < 3);
    let needle = if which == 0 { "AB" } else if which == 1 { "CD" } else { "EF" };
    let r = tz.find_or_create_designation(needle);
    match r {
        Some((a, b)) => {
            let (a, b) = (usize::from(a), usize::from(b));
            assert!(&tz.fixed.designations[a..b] == needle);
            if which == 0 { assert!(a == 0 && b == 2); }
            if which == 1 { assert!(a == 3 && b == 5); }
            if which == 2 { assert!(a == 6 && b == 8 && tz.fixed.designations.len() == 9); }
        }
        None => assert!(false),
    }
}

//@harness c18_designation_len2
//@target shared::TzifOwned::find_or_create_designation (src/shared/tzif.rs)
//@prop C18 C03 C17
//@tier quick
//@features alloc
//@timeout 600
//@bounded designation table "AB\0CDE\0" (concrete, capacity 16), 2-byte needle in {AB, CD (prefix of an entry), DE (suffix of an entry), EF (absent)}
//@doc Some((a,b)) => designations[a..b] == needle; "AB" is found at 0..2 and the table is unchanged; a prefix or suffix of the entry "CDE" is NOT taken for the entry: the needle is appended at 7..9 followed by NUL; the first 7 bytes never change; never None
#[kani::proof]
#[kani::unwind(12)]
fn c18_designation_len2() {
    let mut tz = mk("AB\0CDE\0");
    let which: u8 = kani::any(); kani::assume(which < 4);
    let needle = match which { 0 => "AB", 1 => "CD", 2 => "DE", _ => "EF" };
    let r = tz.find_or_create_designation(needle);
    match r {
        Some((a, b)) => {
            let (a, b) = (usize::from(a), usize::from(b));
            assert!(&tz.fixed.designations[a..b] == needle);
            if which == 0 { assert!(a == 0 && b == 2 && tz.fixed.designations.len() == 7); }
            else { assert!(a == 7 && b == 9 && tz.fixed.designations.len() == 10 && tz.fixed.designations.as_bytes()[9] == 0); }
            assert!(&tz.fixed.designations[..7] == "AB\0CDE\0");
        }
        None => assert!(false),
    }
}

//@harness c18_designation_len3
//@target shared::TzifOwned::find_or_create_designation (src/shared/tzif.rs)
//@prop C18 C03 C17
//@tier quick
//@features alloc
//@timeout 600
//@bounded designation table "AB\0CDE\0" (concrete, capacity 16), 3-byte needle in {CDE, ABC (extends an entry), XYZ (absent)}
//@doc Some((a,b)) => designations[a..b] == needle; "CDE" is found at 3..6 and the table is unchanged; otherwise the needle is appended at 7..10 followed by NUL; the first 7 bytes never change; never None
#[kani::proof]
#[kani::unwind(12)]
fn c18_designation_len3() {
    let mut tz = mk("AB\0CDE\0");
    let which: u8 = kani::any(); kani::assume(which < 3);
    let needle = match which { 0 => "CDE", 1 => "ABC", _ => "XYZ" };
    let r = tz.find_or_create_designation(needle);
    match r {
        Some((a, b)) => {
            let (a, b) = (usize::from(a), usize::from(b));
            assert!(&tz.fixed.designations[a..b] == needle);
            if which == 0 { assert!(a == 3 && b == 6 && tz.fixed.designations.len() == 7); }
            else { assert!(a == 7 && b == 10 && tz.fixed.designations.len() == 11 && tz.fixed.designations.as_bytes()[10] == 0); }
            assert!(&tz.fixed.designations[..7] == "AB\0CDE\0");
        }
        None => assert!(false),
    }
}
