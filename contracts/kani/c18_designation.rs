//@inject src/shared/tzif.rs
//! C18 experiments
use super::*;
use alloc::string::String;
use alloc::vec::Vec;
use crate::shared::{TzifFixed, TzifTransitionsOwned};

fn mk(designations: &str) -> TzifOwned {
    TzifOwned {
        fixed: TzifFixed { name: None, version: b'2', checksum: 0, designations: String::from(designations), posix_tz: None },
        types: Vec::new(),
        transitions: TzifTransitionsOwned { timestamps: Vec::new(), civil_starts: Vec::new(), civil_ends: Vec::new(), infos: Vec::new() },
    }
}

//@harness c18_v1
//@target x
//@prop C18
//@tier quick
//@features alloc
//@timeout 600
//@bounded x
//@doc x
#[kani::proof]
#[kani::unwind(6)]
fn c18_v1() {
    let mut tz = mk("A\0");
    let which: bool = kani::any();
    let needle = if which { "A" } else { "B" };
    let r = tz.find_or_create_designation(needle);
    match r {
        Some((a, b)) => {
            let (a, b) = (usize::from(a), usize::from(b));
            assert!(&tz.fixed.designations[a..b] == needle);
            if which { assert!(a == 0 && b == 1); } else { assert!(a == 2 && b == 3 && tz.fixed.designations.len() == 4); }
        }
        None => assert!(false),
    }
}

//@harness c18_v2
//@target x
//@prop C18
//@tier quick
//@features alloc
//@timeout 600
//@bounded x
//@doc x
#[kani::proof]
#[kani::unwind(12)]
fn c18_v2() {
    let mut tz = mk("AB\0CD\0");
    let needle = "EF";
    let r = tz.find_or_create_designation(needle);
    match r {
        Some((a, b)) => {
            let (a, b) = (usize::from(a), usize::from(b));
            assert!(&tz.fixed.designations[a..b] == needle);
            assert!(a == 6 && b == 8 && tz.fixed.designations.len() == 9);
        }
        None => assert!(false),
    }
}
