//! C03/C04/C14: the `jiff::tz` wrappers of src/tz/posix.rs around the (Verus-proved) POSIX rule evaluator of src/shared/posix.rs.
//! Probe stubs: each shared callee is replaced by a function that records its argument and returns an arbitrary value; the
//! wrapper is checked to hand over the instant / civil datetime UNCHANGED (seconds AND nanoseconds) and to hand back the
//! callee's answer unchanged.  Modular: the callee's own contract is unit `posix`.
use crate::shared::util::itime::{IAmbiguousOffset, IDateTime, IOffset, ITimestamp};
use crate::tz::posix::PosixTimeZone;
use crate::tz::{AmbiguousOffset, Offset};

/// a symbolic well-formed Timestamp built directly from its representation invariant
fn any_timestamp() -> crate::Timestamp {
    let s: i64 = kani::any();
    let n: i32 = kani::any();
    kani::assume(-377705023201 <= s && s <= 253402207200 && -999_999_999 <= n && n <= 999_999_999);
    kani::assume(!(s > 0 && n < 0) && !(s < 0 && n > 0) && !(s == -377705023201 && n < 0));
    crate::Timestamp::from_itimestamp_const(ITimestamp { second: s, nanosecond: n })
}

type Shared = crate::shared::PosixTimeZone<&'static str>;

static mut ARG_TS: ITimestamp = ITimestamp { second: 0, nanosecond: 0 };
static mut CALLS: u32 = 0;
static mut RET_OFF: i32 = 0;
static mut RET_DST: bool = false;
static mut RET_TS: ITimestamp = ITimestamp { second: 0, nanosecond: 0 };
static mut RET_SOME: bool = false;

fn any_ioffset() -> IOffset {
    let s: i32 = kani::any();
    kani::assume(-93599 <= s && s <= 93599);
    IOffset { second: s }
}
fn any_its() -> ITimestamp {
    // contract of the shared transition functions (unit posix): a well-formed whole-second instant in range
    let s: i64 = kani::any();
    kani::assume(-377705023201 <= s && s <= 253402207200);
    ITimestamp { second: s, nanosecond: 0 }
}
fn probe_to_offset<ABBREV: AsRef<str>>(_tz: &crate::shared::PosixTimeZone<ABBREV>, ts: ITimestamp) -> IOffset {
    unsafe { CALLS += 1; ARG_TS = ts; let o = any_ioffset(); RET_OFF = o.second; o }
}
fn probe_to_offset_info<'a, ABBREV: AsRef<str>>(tz: &'a crate::shared::PosixTimeZone<ABBREV>, ts: ITimestamp) -> (IOffset, &'a str, bool) {
    unsafe { CALLS += 1; ARG_TS = ts; let o = any_ioffset(); RET_OFF = o.second; RET_DST = kani::any(); (o, tz.std_abbrev.as_ref(), RET_DST) }
}
fn probe_transition<'a, ABBREV: AsRef<str>>(tz: &'a crate::shared::PosixTimeZone<ABBREV>, ts: ITimestamp) -> Option<(ITimestamp, IOffset, &'a str, bool)> {
    unsafe {
        CALLS += 1; ARG_TS = ts;
        RET_SOME = kani::any();
        if !RET_SOME { return None; }
        let o = any_ioffset(); RET_OFF = o.second; RET_DST = kani::any(); RET_TS = any_its();
        Some((RET_TS, o, tz.std_abbrev.as_ref(), RET_DST))
    }
}

fn some_zone() -> PosixTimeZone<&'static str> {
    PosixTimeZone::from_shared_const(crate::shared::PosixTimeZone {
        std_abbrev: "AAA",
        std_offset: crate::shared::PosixOffset { second: 0 },
        dst: None,
    })
}
fn same_instant(ts: crate::Timestamp) -> bool {
    unsafe { CALLS == 1 && ARG_TS.second == ts.as_second() && ARG_TS.nanosecond == ts.subsec_nanosecond() }
}

//@harness c03_posix_wrapper_to_offset
//@target tz::posix::PosixTimeZone::{to_offset, to_offset_info} (src/tz/posix.rs)
//@prop C03 C14
//@tier quick
//@mode rel
//@doc for every Timestamp: the rule evaluator is asked about exactly that instant (same second and same sub-second nanoseconds, once) and its offset / DST flag / abbreviation are returned unchanged
#[kani::proof]
#[kani::stub(crate::shared::PosixTimeZone::to_offset, probe_to_offset)]
#[kani::stub(crate::shared::PosixTimeZone::to_offset_info, probe_to_offset_info)]
fn c03_posix_wrapper_to_offset() {
    let tz = some_zone();
    let ts = any_timestamp();
    if kani::any() {
        let off: Offset = tz.to_offset(ts);
        assert!(same_instant(ts));
        assert!(off.seconds() == unsafe { RET_OFF });
    } else {
        let info = tz.to_offset_info(ts);
        assert!(same_instant(ts));
        assert!(info.offset().seconds() == unsafe { RET_OFF });
        assert!(info.dst().is_dst() == unsafe { RET_DST });
        assert!(info.abbreviation() == "AAA");
    }
}

//@harness c14_posix_wrapper_previous
//@target tz::posix::PosixTimeZone::previous_transition (src/tz/posix.rs)
//@prop C14 C03
//@tier quick
//@mode rel
//@doc for every Timestamp: the rule evaluator is asked about exactly that instant (seconds and nanoseconds) and its answer (None, or instant/offset/abbreviation/DST flag) is returned unchanged
#[kani::proof]
#[kani::stub(crate::shared::PosixTimeZone::previous_transition, probe_transition)]
fn c14_posix_wrapper_previous() {
    let tz = some_zone();
    let ts = any_timestamp();
    check_transition(tz.previous_transition(ts), ts);
}

//@harness c14_posix_wrapper_next
//@target tz::posix::PosixTimeZone::next_transition (src/tz/posix.rs)
//@prop C14 C03
//@tier quick
//@mode rel
//@doc for every Timestamp: the rule evaluator is asked about exactly that instant (seconds and nanoseconds) and its answer (None, or instant/offset/abbreviation/DST flag) is returned unchanged
#[kani::proof]
#[kani::stub(crate::shared::PosixTimeZone::next_transition, probe_transition)]
fn c14_posix_wrapper_next() {
    let tz = some_zone();
    let ts = any_timestamp();
    check_transition(tz.next_transition(ts), ts);
}

fn check_transition(r: Option<crate::tz::TimeZoneTransition<'_>>, ts: crate::Timestamp) {
    assert!(same_instant(ts));
    assert!(r.is_some() == unsafe { RET_SOME });
    if let Some(t) = r {
        unsafe {
            assert!(t.timestamp().as_second() == RET_TS.second && t.timestamp().subsec_nanosecond() == 0);
            assert!(t.offset().seconds() == RET_OFF);
            assert!(t.dst().is_dst() == RET_DST);
            assert!(t.abbreviation().len() == 3);
        }
    }
}
