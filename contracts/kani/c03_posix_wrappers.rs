//! C03/C04/C14: the `jiff::tz` wrappers of src/tz/posix.rs around the (Verus-proved) POSIX rule evaluator of src/shared/posix.rs.
//! Probe stubs: each shared callee is replaced by a function that records its argument and returns an arbitrary value; the
//! wrapper is checked to hand over the instant / civil datetime UNCHANGED (seconds AND nanoseconds) and to hand back the
//! callee's answer unchanged.  Modular: the callee's own contract is unit `posix`.
use crate::shared::util::itime::{IAmbiguousOffset, IDateTime, IOffset, ITimestamp};
use crate::tz::posix::PosixTimeZone;
use crate::tz::{AmbiguousOffset, Offset};

/// a symbolic well-formed Timestamp built directly from its representation invariant
fn any_timestamp() -> crate::Timestamp {
    let s: i64 = kani::any();
    let n: i32 = kani::any();
    kani::assume(-377705023201 <= s && s <= 253402207200 && -999_999_999 <= n && n <= 999_999_999);
    kani::assume(!(s > 0 && n < 0) && !(s < 0 && n > 0) && !(s == -377705023201 && n < 0));
    crate::Timestamp::from_itimestamp_const(ITimestamp { second: s, nanosecond: n })
}

type Shared = crate::shared::PosixTimeZone<&'static str>;

static mut ARG_TS: ITimestamp = ITimestamp { second: 0, nanosecond: 0 };
static mut CALLS: u32 = 0;
static mut RET_OFF: i32 = 0;
static mut RET_DST: bool = false;
static mut RET_TS: ITimestamp = ITimestamp { second: 0, nanosecond: 0 };
static mut RET_SOME: bool = false;

fn any_ioffset() -> IOffset {
    let s: i32 = kani::any();
    kani::assume(-93599 <= s && s <= 93599);
    IOffset { second: s }
}
fn any_its() -> ITimestamp {
    // contract of the shared transition functions (unit posix): a well-formed whole-second instant in range
    let s: i64 = kani::any();
    kani::assume(-377705023201 <= s && s <= 253402207200);
    ITimestamp { second: s, nanosecond: 0 }
}
fn probe_to_offset<ABBREV: AsRef<str>>(_tz: &crate::shared::PosixTimeZone<ABBREV>, ts: ITimestamp) -> IOffset {
    unsafe { CALLS += 1; ARG_TS = ts; let o = any_ioffset(); RET_OFF = o.second; o }
}
fn probe_to_offset_info<'a, ABBREV: AsRef<str>>(tz: &'a crate::shared::PosixTimeZone<ABBREV>, ts: ITimestamp) -> (IOffset, &'a str, bool) {
    unsafe { CALLS += 1; ARG_TS = ts; let o = any_ioffset(); RET_OFF = o.second; RET_DST = kani::any(); (o, tz.std_abbrev.as_ref(), RET_DST) }
}
fn probe_transition<'a, ABBREV: AsRef<str>>(tz: &'a crate::shared::PosixTimeZone<ABBREV>, ts: ITimestamp) -> Option<(ITimestamp, IOffset, &'a str, bool)> {
    unsafe {
        CALLS += 1; ARG_TS = ts;
        RET_SOME = kani::any();
        if !RET_SOME { return None; }
        let o = any_ioffset(); RET_OFF = o.second; RET_DST = kani::any(); RET_TS = any_its();
        Some((RET_TS, o, tz.std_abbrev.as_ref(), RET_DST))
    }
}

fn some_zone() -> PosixTimeZone<&'static str> {
    PosixTimeZone::from_shared_const(crate::shared::PosixTimeZone {
        std_abbrev: "AAA",
        std_offset: crate::shared::PosixOffset { second: 0 },
        dst: None,
    })
}
fn same_instant(ts: crate::Timestamp) -> bool {
    unsafe { CALLS == 1 && ARG_TS.second == ts.as_second() && ARG_TS.nanosecond == ts.subsec_nanosecond() }
}

//@harness c03_posix_wrapper_to_offset
//@target tz::posix::PosixTimeZone::{to_offset, to_offset_info} (src/tz/posix.rs)
//@prop C03 C14
//@tier quick
//@mode rel
//@doc for every Timestamp: the rule evaluator is asked about exactly that instant (same second and same sub-second nanoseconds, once) and its offset / DST flag / abbreviation are returned unchanged
#[kani::proof]
#[kani::stub(crate::shared::PosixTimeZone::to_offset, probe_to_offset)]
#[kani::stub(crate::shared::PosixTimeZone::to_offset_info, probe_to_offset_info)]
fn c03_posix_wrapper_to_offset() {
    let tz = some_zone();
    let ts = any_timestamp();
    if kani::any() {
        let off: Offset = tz.to_offset(ts);
        assert!(same_instant(ts));
        assert!(off.seconds() == unsafe { RET_OFF });
    } else {
        let info = tz.to_offset_info(ts);
        assert!(same_instant(ts));
        assert!(info.offset().seconds() == unsafe { RET_OFF });
        assert!(info.dst().is_dst() == unsafe { RET_DST });
        assert!(info.abbreviation() == "AAA");
    }
}

//@harness c14_posix_wrapper_previous
//@target tz::posix::PosixTimeZone::previous_transition (src/tz/posix.rs)
//@prop C14 C03
//@tier quick
//@mode rel
//@doc for every Timestamp: the rule evaluator is asked about exactly that instant (seconds and nanoseconds) and its answer (None, or instant/offset/abbreviation/DST flag) is returned unchanged
#[kani::proof]
#[kani::stub(crate::shared::PosixTimeZone::previous_transition, probe_transition)]
fn c14_posix_wrapper_previous() {
    let tz = some_zone();
    let ts = any_timestamp();
    check_transition(tz.previous_transition(ts), ts);
}

//@harness c14_posix_wrapper_next
//@target tz::posix::PosixTimeZone::next_transition (src/tz/posix.rs)
//@prop C14 C03
//@tier quick
//@mode rel
//@doc for every Timestamp: the rule evaluator is asked about exactly that instant (seconds and nanoseconds) and its answer (None, or instant/offset/abbreviation/DST flag) is returned unchanged
#[kani::proof]
#[kani::stub(crate::shared::PosixTimeZone::next_transition, probe_transition)]
fn c14_posix_wrapper_next() {
    let tz = some_zone();
    let ts = any_timestamp();
    check_transition(tz.next_transition(ts), ts);
}

fn check_transition(r: Option<crate::tz::TimeZoneTransition<'_>>, ts: crate::Timestamp) {
    assert!(same_instant(ts));
    assert!(r.is_some() == unsafe { RET_SOME });
    if let Some(t) = r {
        unsafe {
            assert!(t.timestamp().as_second() == RET_TS.second && t.timestamp().subsec_nanosecond() == 0);
            assert!(t.offset().seconds() == RET_OFF);
            assert!(t.dst().is_dst() == RET_DST);
            assert!(t.abbreviation().len() == 3);
        }
    }
}

// ---- the rule evaluator itself (src/shared/posix.rs): which civil datetime does it evaluate the rule at? ----
// The arithmetic of the evaluation is unit `posix` (Verus).  This probe pins the plumbing in front of it: the instant handed to
// `ITimestamp::to_datetime` is the queried instant, sub-second part included (an instant before 1970 with a fraction lies in the
// PREVIOUS civil second; dropping the fraction moves it across a transition).
static mut DT_ARG: ITimestamp = ITimestamp { second: 0, nanosecond: 0 };
static mut DT_OFF: i32 = 1;
static mut DT_CALLS: u32 = 0;
fn probe_to_datetime(ts: &ITimestamp, off: IOffset) -> IDateTime {
    unsafe { DT_CALLS += 1; DT_ARG = *ts; DT_OFF = off.second; }
    // any civil datetime of a supported year (the contract of ITimestamp::to_datetime: unit itime)
    let y: i16 = kani::any(); let m: i8 = kani::any(); let d: i8 = kani::any();
    kani::assume(-9999 <= y && y <= 9999 && 1 <= m && m <= 12 && 1 <= d && d <= 28);
    let h: i8 = kani::any(); let mi: i8 = kani::any(); let s: i8 = kani::any(); let n: i32 = kani::any();
    kani::assume(0 <= h && h <= 23 && 0 <= mi && mi <= 59 && 0 <= s && s <= 59 && 0 <= n && n <= 999_999_999);
    IDateTime {
        date: crate::shared::util::itime::IDate { year: y, month: m, day: d },
        time: crate::shared::util::itime::ITime { hour: h, minute: mi, second: s, subsec_nanosecond: n },
    }
}
//@harness c03_shared_posix_evaluates_at_the_instant
//@target shared::PosixTimeZone::{to_offset, to_offset_info}: argument of ITimestamp::to_datetime (src/shared/posix.rs)
//@prop C03 C13 C14
//@tier quick
//@mode rel
//@doc for every instant and a zone with a DST rule: the rule is evaluated at ITimestamp::to_datetime(IOffset::UTC) of exactly the queried instant -- the same second AND the same sub-second nanoseconds -- called once
#[kani::proof]
#[kani::stub(ITimestamp::to_datetime, probe_to_datetime)]
fn c03_shared_posix_evaluates_at_the_instant() {
    use crate::shared::{PosixDay, PosixDayTime, PosixDst, PosixOffset, PosixRule, PosixTime};
    let rule = PosixRule {
        start: PosixDayTime { date: PosixDay::WeekdayOfMonth { month: 3, week: 2, weekday: 0 }, time: PosixTime { second: 7200 } },
        end: PosixDayTime { date: PosixDay::WeekdayOfMonth { month: 11, week: 1, weekday: 0 }, time: PosixTime { second: 7200 } },
    };
    let tz: Shared = crate::shared::PosixTimeZone {
        std_abbrev: "EST", std_offset: PosixOffset { second: -18000 },
        dst: Some(PosixDst { abbrev: "EDT", offset: PosixOffset { second: -14400 }, rule }),
    };
    let s: i64 = kani::any(); let n: i32 = kani::any();
    kani::assume(-377705023201 <= s && s <= 253402207200 && -999_999_999 <= n && n <= 999_999_999);
    kani::assume(!(s > 0 && n < 0) && !(s < 0 && n > 0));
    let ts = ITimestamp { second: s, nanosecond: n };
    if kani::any() { let _ = tz.to_offset(ts); } else { let _ = tz.to_offset_info(ts); }
    unsafe {
        assert!(DT_CALLS == 1);
        assert!(DT_ARG.second == s && DT_ARG.nanosecond == n);
        assert!(DT_OFF == 0);
    }
}
