//@inject src/span.rs
//! C11: `Nudge::relative_calendar` (rounding a span to a calendar unit relative to a datetime).  The interpolation itself is f64
//! arithmetic (RoundMode::round_float: groups c11_round_float / c11_round_float_native); this probe pins the integer plumbing in
//! front of it: WHICH window of the reference timeline the progress is measured in.  `clamp_relative_span` (the two zone-aware
//! additions) and `round_float` are replaced by probes that record their arguments and return arbitrary values.
use super::*;

static mut CL_CALLS: u32 = 0;
static mut CL_UNITS: i64 = 0;
static mut CL_AMOUNT: i64 = 0;
static mut CL_UNIT_OK: bool = false;
static mut CL_UPPER_KEPT: bool = false;
static mut PROBE_YEARS: i64 = 0;
fn probe_clamp(_relative: &Relative<'_>, span: Span, unit: Unit, amount: NoUnits) -> Result<(NoUnits128, NoUnits128), Error> {
    unsafe {
        CL_CALLS += 1;
        CL_UNITS = span.get_units_ranged(unit).get();
        CL_AMOUNT = amount.get();
        CL_UNIT_OK = unit == Unit::Month;
        CL_UPPER_KEPT = span.get_years_ranged().get() as i64 == PROBE_YEARS && span.get_days_ranged().get() == 0;
    }
    // any window of non-zero length
    let r0: i64 = kani::any();
    let len: i64 = kani::any();
    kani::assume(-1_000_000_000_000_000 <= r0 && r0 <= 1_000_000_000_000_000 && len != 0 && -4_000_000_000_000_000 <= len && len <= 4_000_000_000_000_000);
    Ok((NoUnits128::new_unchecked(r0 as i128), NoUnits128::new_unchecked((r0 + len) as i128)))
}
fn probe_round_float(_mode: RoundMode, _quantity: f64, _increment: NoUnits128) -> NoUnits128 {
    let v: i32 = kani::any();
    NoUnits128::new_unchecked(v as i128)
}

//@harness c11_relative_calendar_window
//@target span::Nudge::relative_calendar: arguments of clamp_relative_span (src/span.rs)
//@prop C11
//@tier quick
//@mode rel
//@timeout 900
//@doc for every balanced span of years + months (|months| <= 239976, days zeroed below the smallest unit), every increment 1..=100 and every mode, smallest unit = months: the progress is interpolated in the window that starts at the span with its month count replaced by the multiple of the increment TOWARD ZERO (inc * trunc(months / inc)), larger units kept and smaller units dropped, and that extends by exactly one increment in the span's direction (sign * inc)
#[kani::proof]
#[kani::stub(clamp_relative_span, probe_clamp)]
#[kani::stub(RoundMode::round_float, probe_round_float)]
#[kani::unwind(4)]
fn c11_relative_calendar_window() {
    let months: i32 = kani::any();
    let years: i16 = kani::any();
    let days: i32 = kani::any();
    kani::assume(-239_976 <= months && months <= 239_976 && -19_998 <= years && years <= 19_998 && -30 <= days && days <= 30);
    // one sign
    kani::assume(!(months > 0 && (years < 0 || days < 0)) && !(months < 0 && (years > 0 || days > 0)) && !(years > 0 && days < 0) && !(years < 0 && days > 0));
    let balanced = Span::new().try_years(years as i64).unwrap().try_months(months as i64).unwrap().try_days(days as i64).unwrap();
    let inc: i64 = kani::any();
    kani::assume(1 <= inc && inc <= 100);
    let k: u8 = kani::any();
    kani::assume(k < 9);
    let mode = match k { 0 => RoundMode::Ceil, 1 => RoundMode::Floor, 2 => RoundMode::Expand, 3 => RoundMode::Trunc, 4 => RoundMode::HalfCeil,
                         5 => RoundMode::HalfFloor, 6 => RoundMode::HalfExpand, 7 => RoundMode::HalfTrunc, _ => RoundMode::HalfEven };
    let rc = RelativeCivil { datetime: crate::civil::DateTime::constant(2024, 1, 1, 0, 0, 0, 0), timestamp: crate::Timestamp::constant(1_704_067_200, 0) };
    let rs = Relative::Civil(rc);
    let re = Relative::Civil(RelativeCivil { datetime: crate::civil::DateTime::constant(2024, 1, 1, 0, 0, 0, 0), timestamp: crate::Timestamp::constant(1_704_067_200, 0) });
    unsafe { PROBE_YEARS = years as i64; CL_CALLS = 0; }
    let sign: i64 = if years > 0 || months > 0 || days > 0 { 1 } else if years < 0 || months < 0 || days < 0 { -1 } else { 0 };
    let _ = Nudge::relative_calendar(balanced, &rs, &re, Unit::Month, NoUnits128::new_unchecked(inc as i128), mode);
    unsafe {
        assert!(CL_CALLS == 1);
        assert!(CL_UNIT_OK && CL_UPPER_KEPT);
        let q = (months as i64) / inc;           // Rust `/` truncates toward zero
        assert!(CL_UNITS == inc * q);
        assert!(CL_AMOUNT == inc * sign);
    }
}
