//@inject src/fmt/temporal/parser.rs
//! C09: civil Date / Time text round trip on the real Temporal printer and parser.
//! Injected into parser.rs (private parse_* pieces reachable); the printer's `pub(super)` methods are
//! visible from here as well (descendant of fmt::temporal).
//!
//! Reference semantics (`ref_*` below) are written digit by digit from RFC 3339 section 5.6 / ISO 8601
//! (`date-fullyear "-" date-month "-" date-mday`, `time-hour ":" time-minute ":" time-second [ "." 1*DIGIT ]`)
//! plus the ISO 8601 / ECMA-262 expanded year (sign and six digits), with no call into jiff.
use super::*;
use crate::fmt::temporal::printer::DateTimePrinter;
use crate::verif_kani::spec::*;

const BUF: usize = 20;
pub struct Buf { pub b: [u8; BUF], pub n: usize, pub overflow: bool }
impl Buf { pub fn new() -> Buf { Buf { b: [0; BUF], n: 0, overflow: false } } }
impl crate::fmt::Write for Buf {
    fn write_str(&mut self, s: &str) -> Result<(), Error> {
        let bytes = s.as_bytes();
        let mut i = 0;
        while i < bytes.len() {
            if self.n >= BUF { self.overflow = true; return Ok(()); }
            self.b[self.n] = bytes[i];
            self.n += 1;
            i += 1;
        }
        Ok(())
    }
}

// ---------------------------------------------------------------- independent reference reader
/// value of one ASCII digit, None otherwise
fn dg(c: u8) -> Option<i64> {
    if c >= b'0' && c <= b'9' { Some((c - b'0') as i64) } else { None }
}
fn dg2(a: u8, b: u8) -> Option<i64> {
    Some(dg(a)? * 10 + dg(b)?)
}
fn dg4(a: u8, b: u8, c: u8, d: u8) -> Option<i64> {
    Some(dg(a)? * 1000 + dg(b)? * 100 + dg(c)? * 10 + dg(d)?)
}
/// ISO 8601 extended calendar date: `YYYY-MM-DD` (10 bytes) or, with the expanded year, `sYYYYYY-MM-DD`
/// (13 bytes, s = '+' | '-'; "-000000" is not a year).  Returns the named (y, m, d) if it is a Gregorian date.
fn ref_date(b: &[u8; BUF], n: usize) -> Option<(i64, i64, i64)> {
    let (y, at) = if n == 10 {
        (dg4(b[0], b[1], b[2], b[3])?, 4)
    } else if n == 13 {
        let a = dg2(b[1], b[2])? * 10000 + dg4(b[3], b[4], b[5], b[6])?;
        if b[0] == b'-' {
            if a == 0 { return None; }
            (-a, 7)
        } else if b[0] == b'+' {
            (a, 7)
        } else {
            return None;
        }
    } else {
        return None;
    };
    if b[at] != b'-' || b[at + 3] != b'-' { return None; }
    let m = dg2(b[at + 1], b[at + 2])?;
    let d = dg2(b[at + 4], b[at + 5])?;
    if !valid(y, m, d) { return None; }
    Some((y, m, d))
}
/// RFC 3339 partial-time `HH:MM:SS[.f+]` with 1..=9 fraction digits; returns (h, m, s, nanosecond).
fn ref_time(b: &[u8; BUF], n: usize) -> Option<(i64, i64, i64, i64)> {
    if n < 8 || n == 9 || n > 18 { return None; }
    if b[2] != b':' || b[5] != b':' { return None; }
    let h = dg2(b[0], b[1])?;
    let m = dg2(b[3], b[4])?;
    let s = dg2(b[6], b[7])?;
    if h > 23 || m > 59 || s > 59 { return None; }
    let mut ns: i64 = 0;
    if n > 8 {
        if b[8] != b'.' { return None; }
        let mut i = 0;
        while i < 9 {
            ns = ns * 10;
            if 9 + i < n { ns += dg(b[9 + i])?; }
            i += 1;
        }
    }
    Some((h, m, s, ns))
}

fn any_time_fields() -> (i8, i8, i8, i32) {
    let h: i8 = kani::any();
    let m: i8 = kani::any();
    let s: i8 = kani::any();
    let ns: i32 = kani::any();
    kani::assume(0 <= h && h <= 23 && 0 <= m && m <= 59 && 0 <= s && s <= 59 && 0 <= ns && ns <= 999_999_999);
    (h, m, s, ns)
}
fn mk_time(h: i8, m: i8, s: i8, ns: i32) -> Time {
    Time::new_ranged(
        t::Hour::new_unchecked(h),
        t::Minute::new_unchecked(m),
        t::Second::new_unchecked(s),
        t::SubsecNanosecond::new_unchecked(ns),
    )
}

// ---------------------------------------------------------------- printer side
// ---------------------------------------------------------------- parser side: dates
/// Reference PREFIX reader for the Temporal `Date` production on an N-byte string (ISO 8601 calendar date,
/// extended `YYYY-MM-DD` or basic `YYYYMMDD`, year either 4 digits or sign + 6 digits, "-000000" excluded,
/// year range -9999..=9999): Some((y, m, d, bytes consumed)) or None (not a date).
fn ref_date_prefix<const N: usize>(b: &[u8; N]) -> Option<(i64, i64, i64, usize)> {
    let at = |i: usize| -> Option<u8> { if i < N { Some(b[i]) } else { None } };
    let (y, p) = if N > 0 && (b[0] == b'+' || b[0] == b'-') {
        let a = dg2(at(1)?, at(2)?)? * 10000 + dg4(at(3)?, at(4)?, at(5)?, at(6)?)?;
        if a > 9999 { return None; }
        if b[0] == b'-' && a == 0 { return None; }
        (if b[0] == b'-' { -a } else { a }, 7)
    } else {
        (dg4(at(0)?, at(1)?, at(2)?, at(3)?)?, 4)
    };
    let extended = at(p) == Some(b'-');
    let p = if extended { p + 1 } else { p };
    let m = dg2(at(p)?, at(p + 1)?)?;
    if m < 1 || m > 12 { return None; }
    let p = p + 2;
    let p = if extended {
        if at(p)? != b'-' { return None; }
        p + 1
    } else {
        if at(p) == Some(b'-') { return None; }
        p
    };
    let d = dg2(at(p)?, at(p + 1)?)?;
    if !valid(y, m, d) { return None; }
    Some((y, m, d, p + 2))
}
fn copy_into<const N: usize>(b: &[u8; N]) -> [u8; BUF] {
    let mut out = [0u8; BUF];
    let mut i = 0;
    while i < N { out[i] = b[i]; i += 1; }
    out
}

//@harness x09_parse_date_10_kissat
//@target fmt::temporal::DateTimeParser::parse_date (= <civil::Date as FromStr>::from_str) -> parser::DateTimeParser::parse_temporal_datetime -> Parsed::into_full -> ParsedDateTime::to_date (src/fmt/temporal/mod.rs, parser.rs)
//@prop C09
//@tier quick
//@timeout 900
//@doc for EVERY 10-byte string: the public date parser returns Ok(d) exactly when the string is `YYYY-MM-DD` naming a Gregorian date per the independent reference reader (the same reader that decodes the printer's output), and d has exactly those fields; every other 10-byte string (including the basic form + 2 trailing bytes) is Err  [parse = decode on the printer's positive-year shape]
#[kani::proof]
#[kani::unwind(8)]
#[kani::solver(kissat)]
fn x09_parse_date_10_kissat() {
    let b: [u8; 10] = kani::any();
    let r = crate::fmt::temporal::DateTimeParser::new().parse_date(&b);
    match ref_date(&copy_into(&b), 10) {
        None => assert!(r.is_err()),
        Some((y, m, d)) => match r {
            Err(_) => assert!(false, "a valid date was rejected"),
            Ok(date) => assert!(ymd(date) == (y, m, d)),
        },
    }
}

