"""Regenerate MANIFEST.json from vfw/config.py (run: python3 -m vfw.manifest)."""
import json
import os
from . import config

VERIF = os.path.dirname(os.path.dirname(os.path.abspath(__file__)))


def main():
    checks = []
    for pid, c in sorted(config.PROPS.items()):
        checks.append({
            "property_id": pid,
            "quick_cmd": "./check %s --tier quick" % pid,
            "thorough_cmd": "./check %s --tier thorough" % pid,
            "evidence_file": "/verif/evidence/%s.json" % pid,
            "replay_cmd_template": "./check %s --replay {path}" % pid,
            "engine": "vfw",
            "level_claimed": {
                "category": "proof",
                "text": c.get("level_text", "Every function of /repo this property depends on (listed in evidence.coverage.functions_under_contract) is cut from the current working tree and verified against a contract whose top-level postcondition is the property statement; the verifier discharges every obligation for all inputs, unbounded. Bounded stand-ins, if any, are listed separately in evidence.coverage.bounded and not counted."),
                "design_ref": c.get("design_ref", "DESIGN.md section 4"),
            },
            "level_note": c.get("level_note", "Trusted: Verus/Z3/Kani/CBMC/rustc; extraction rewrites R1-R12; std specs given by assume_specification; external_body views of types the extracted code only touches (all scanned from the emitted files on every run into evidence.coverage.trusted_base)."),
            "technique": c.get("technique", "contract-based deductive verification: Verus on mechanically extracted real code + Kani function-level proof harnesses on the real crate"),
        })
    na = [{"property_id": k, "reason": v} for k, v in sorted(config.NOT_APPLICABLE.items())]
    for pid in config.NOT_YET:
        na.append({"property_id": pid, "reason": config.NOT_YET[pid]})
    na.sort(key=lambda x: x["property_id"])
    m = {
        "version": 1,
        "setup_cmd": "./setup.sh",
        "hooks": {
            "guard": "kani",
            "enable": "no hook lives in /repo: Kani harness modules are appended to a scratch rsync copy of /repo under #[cfg(kani)] (set by cargo-kani itself); Verus reads functions cut from /repo's working tree",
            "baseline_off_cmd": "cd /repo && cargo test --workspace --no-fail-fast --offline",
            "source_commits": [],
            "add_only": True,
        },
        "engines": [
            {"name": "vfw", "path": "/verif/vfw", "serves_properties": sorted(config.PROPS), "kind_free_text": "extractor + Verus runner + Kani runner + ledger/evidence writer"},
        ],
        "checks": checks,
        "not_applicable": na,
        "notes": "exit 0 = all obligations discharged; exit 1 = a contract obligation fails (VIOLATION); exit 2 = undecided (tool limit, lost anchor, unsupported construct) and is never an alarm. Known findings: /verif/known_findings.json.",
    }
    with open(os.path.join(VERIF, "MANIFEST.json"), "w") as f:
        json.dump(m, f, indent=1)


if __name__ == "__main__":
    main()
