"""Native search for a failing input of a failed obligation (Verus gives no counterexample).

Searchers are small Rust programs under /verif/replay/<unit>/ that compile the *real* source
files of /repo (included by #[path], regenerated from the current working tree on every
search) and evaluate the obligation's predicate exhaustively (all 7.3M dates) or over a
boundary grid, against an oracle written from the property statement."""
import os
import re
import shutil
import subprocess

VERIF = os.path.dirname(os.path.dirname(os.path.abspath(__file__)))
BUILD = os.path.join(VERIF, "build")

# obligation prefix -> (replay crate, shared dir relative to repo)
SEARCHERS = {
    "itime/": ("itime", "src/shared"),
    "itime_static/": ("itime", "crates/jiff-static/src/shared"),
    # units that import the itime unit: the same searcher decides the itime functions among their obligations
    "posix/": ("itime", "src/shared"),
    "posix_static/": ("itime", "crates/jiff-static/src/shared"),
}


def _prepare(crate, repo, shared_rel, tag):
    src = os.path.join(VERIF, "replay", crate)
    dst = os.path.join(BUILD, "replay-%s-%s" % (crate, tag))
    os.makedirs(os.path.join(dst, "src"), exist_ok=True)
    shutil.copy(os.path.join(src, "Cargo.toml"), os.path.join(dst, "Cargo.toml"))
    t = open(os.path.join(src, "src", "main.rs.tmpl")).read()
    t = t.replace("@SHARED@", os.path.join(os.path.abspath(repo), shared_rel)).replace("@REPO@", os.path.abspath(repo))
    with open(os.path.join(dst, "src", "main.rs"), "w") as f:
        f.write(t)
    return dst


def _run(dst, fn, timeout=600):
    env = dict(os.environ)
    env["CARGO_NET_OFFLINE"] = "true"
    env["CARGO_TARGET_DIR"] = os.path.join(dst, "target")
    p = subprocess.run(["cargo", "run", "--release", "--offline", "-q", "--", fn], cwd=dst, env=env,
                       stdout=subprocess.PIPE, stderr=subprocess.PIPE, text=True, timeout=timeout)
    return p.stdout, p.stderr, p.returncode


def search(obligation, repo):
    for prefix, (crate, shared_rel) in SEARCHERS.items():
        if obligation.startswith(prefix):
            fn = obligation[len(prefix):]
            dst = _prepare(crate, repo, shared_rel, prefix.strip("/"))
            out, err, rc = _run(dst, fn)
            m = re.search(r"(?m)^WITNESS (.*)$", out)
            if m:
                return {"searcher": "replay/%s (real %s/util/itime.rs compiled natively, oracle = successor-built Gregorian calendar)" % (crate, shared_rel),
                        "witness": m.group(1),
                        "rerun": "cd %s && cargo run --release --offline -q -- '%s'" % (dst, fn)}
            return None
    return None


def replay(obligation, failing_input, repo):
    w = search(obligation, repo)
    if w:
        print(w["witness"])
    return w is not None


def run_finding_demos(ids, repo):
    """Replay the concrete inputs of known findings through the public API of /repo's current tree.
    Returns {id: (reproduced: bool, text)}."""
    if not ids:
        return {}
    src = os.path.join(VERIF, "replay", "findings")
    dst = os.path.join(BUILD, "replay-findings")
    os.makedirs(os.path.join(dst, "src"), exist_ok=True)
    t = open(os.path.join(src, "Cargo.toml.tmpl")).read().replace("@REPO@", os.path.abspath(repo))
    with open(os.path.join(dst, "Cargo.toml"), "w") as f:
        f.write(t)
    shutil.copy(os.path.join(src, "src", "main.rs"), os.path.join(dst, "src", "main.rs"))
    lock = os.path.join(repo, "Cargo.lock")
    if os.path.exists(lock) and not os.path.exists(os.path.join(dst, "Cargo.lock")):
        shutil.copy(lock, os.path.join(dst, "Cargo.lock"))
    env = dict(os.environ)
    env["CARGO_NET_OFFLINE"] = "true"
    env["CARGO_TARGET_DIR"] = os.path.join(dst, "target")
    p = subprocess.run(["cargo", "run", "--offline", "-q", "--"] + list(ids), cwd=dst, env=env,
                       stdout=subprocess.PIPE, stderr=subprocess.PIPE, text=True, timeout=900)
    out = {}
    for line in p.stdout.split("\n"):
        m = re.match(r"(REPRODUCED|GONE) (\S+)\s*(.*)$", line)
        if m:
            out[m.group(2)] = (m.group(1) == "REPRODUCED", m.group(3))
    for i in ids:
        out.setdefault(i, (None, "demo did not run: " + p.stderr[-300:]))
    return out
