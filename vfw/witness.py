"""Native search for a failing input of a failed obligation (no Verus counterexample exists).
Searchers are small Rust programs under /verif/replay that compile the *real* source files of
/repo (by #[path]) and evaluate the obligation's predicate over a boundary grid / exhaustively."""
import os
import subprocess

VERIF = os.path.dirname(os.path.dirname(os.path.abspath(__file__)))


def search(obligation, repo):
    return None


def replay(obligation, failing_input, repo):
    return False
