def run(prop, cfg, repo):
    return []
