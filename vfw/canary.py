"""Vacuity probes (thorough tier; DESIGN.md 9.3).

For every Verus unit of the property the emitted file is rebuilt with `proof { assert(false); }` spliced at the entry
of every function under contract.  Each such function must then FAIL: if one still verifies, its `requires` clauses
(together with the type invariants and broadcast axioms in scope) are contradictory and its postconditions hold
vacuously.  A second pass puts the probe before the tail expression: if that verifies, some callee contract on the way
to the end of the body is contradictory (or the end is unreachable).  Results: [(name, killed, detail)].
"""
import os
from . import verus_run

HERE = os.path.dirname(os.path.dirname(os.path.abspath(__file__)))

# functions whose tail is legitimately unreachable or which have no tail expression to probe: "unit/fn"
TAIL_EXEMPT = set()


def run(prop, cfg, repo, run=None):
    out = []
    for u in cfg.get("verus", []):
        if isinstance(u, str):
            name, tag, smap = u, "", None
        else:
            name, tag, smap = u
        path = os.path.join(HERE, "contracts", "verus", name + ".vrs")
        for probe in ("entry", "tail"):
            res = verus_run.run_unit(path, repo, None, (), tag + "_probe_" + probe, smap, probe)
            if res.em is None or res.status == "undecided":
                out.append(("%s%s/*[%s]" % (name, tag, probe), None, "probe run undecided: %s" % (res.reason,)))
                continue
            lost = set(fn for fn, a in res.em.lost_anchors if "before-tail" in a or a == "entry")
            for f in res.em.functions:
                if not f["contract"]:
                    continue
                fn = f["name"]
                spec = res.unit.fns.get(fn)
                if spec is not None and spec.external_body:
                    continue
                if run is not None and not run.relevant(res.unit, fn):
                    continue
                key = "%s%s/%s[%s]" % (name, tag, fn, probe)
                if probe == "tail" and ("%s/%s" % (name, fn) in TAIL_EXEMPT or fn in lost):
                    continue
                fr = res.fn.get(fn)
                killed = fr is not None and not fr.ok
                out.append((key, killed, "" if killed else "assert(false) at the %s of the body verified: contract is vacuous there" % probe))
            try:
                os.remove(res.emitted_path)
            except OSError:
                pass
    return out
