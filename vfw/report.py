"""Collect obligations from the back ends, match known findings, print verdict lines,
write replay files and the evidence file."""
import json
import os
import re
import subprocess
import sys
import time

from . import config

VERIF = os.path.dirname(os.path.dirname(os.path.abspath(__file__)))
EVID = os.path.join(VERIF, "evidence")
REPLAYS = os.path.join(VERIF, "replays")
KNOWN = os.path.join(VERIF, "known_findings.json")


def slug(s):
    return re.sub(r"[^A-Za-z0-9_.-]+", "_", s).strip("_")[:120]


class Obl:
    def __init__(self, name, backend, ok, status="discharged"):
        self.name = name
        self.backend = backend
        self.ok = ok
        self.status = status      # discharged | failed | undecided | bounded-ok
        self.time_s = 0.0
        self.detail = ""          # verifier output for failures
        self.kind = ""            # failure kind
        self.src = ""
        self.bounded = None       # description of bound if this is only a bounded stand-in
        self.contract = ""
        self.witness = None       # dict with failing input, when found
        self.replay_cmd = None


class Run:
    def __init__(self, prop, tier, seed, repo):
        self.prop = prop
        self.tier = tier
        self.seed = seed
        self.repo = repo
        self.obls = []
        self.trusted = []
        self.assumptions = []
        self.functions = []
        self.checker_cmds = []
        self.undecided = []        # [(obligation, reason)]
        self.lost = []
        self.notes = []
        self.wall_s = 0.0
        self.canaries = []         # [(name, killed, detail)]
        self.dropped = []
        self.solver_s = {}
        self.known_demo = []

    # ------------------------------------------------------------------ verus
    def relevant(self, unit, fname):
        if config.PROPS.get(self.prop, {}).get("all_fns"):
            return True
        # units the property depends on wholesale (e.g. the POSIX rule evaluator with the itime calendar core it imports):
        # every function of such a unit is an obligation of this property, whatever its own tags
        if unit.name in config.PROPS.get(self.prop, {}).get("whole_units", ()):
            return True
        spec = unit.fns.get(fname)
        if spec is None or not spec.props:
            return True
        return self.prop in spec.props

    def add_verus(self, name, res):
        unit = res.unit
        self.checker_cmds.append("(cd /verif/build && %s)  # unit %s, emitted from %s" % (res.cmd or "verus <not run>", name, ",".join(s[0] for s in unit.sources)))
        self.solver_s["verus:" + name] = round(res.smt_ms / 1000.0, 2)
        if res.status == "undecided" and not res.fn:
            self.undecided.append(("%s/*" % name, res.reason))
            return
        if res.status == "undecided" and res.reason.startswith(("unsupported", "tool-error", "extractor")):
            self.undecided.append(("%s/*" % name, res.reason))
            return
        em = res.em
        if em is not None:
            for t in em.trusted:
                self.trusted.append("%s.rs:%s" % (name, t))
            for f in em.functions:
                if self.relevant(unit, f["name"]):
                    self.functions.append("%s (%s:%d)%s" % (f["name"], f["file"], f["line"], " [contract]" if f["contract"] else " [panic/overflow-freedom only]"))
            for fn_, anchor in em.lost_anchors:
                self.lost.append("%s/%s: lost anchor %s" % (name, fn_, anchor))
            self.dropped += ["%s: %s" % (name, d) for d in em.dropped]
        for fname, fr in sorted(res.fn.items()):
            is_lemma = fname.startswith("<lemma>") or (em is not None and not any(fname == x[0] for x in em.fn_lines))
            if not is_lemma and not self.relevant(unit, fname):
                continue
            # composition harnesses of a unit's postlude are named verif_cNN_*: they belong to property CNN only
            mh = re.match(r"(?:<lemma>::)?verif_c(\d\d)_", fname)
            if mh and self.prop != "C" + mh.group(1):
                continue
            # hand-written executable functions of the prelude (rangeint model, opaque views) are not
            # obligations about /repo: only extracted functions and proof lemmas are counted
            if is_lemma and fr.ok and fr.mode not in ("proof",):
                continue
            o = Obl("%s/%s" % (name, fname), "verus/z3", fr.ok)
            o.time_s = fr.time_ms / 1000.0
            if fr.src:
                o.src = "%s:%d" % fr.src
            spec = unit.fns.get(fname)
            if spec is not None:
                o.contract = ("requires " + "; ".join(spec.requires) if spec.requires else "") + (" ensures " + "; ".join(spec.ensures) if spec.ensures else "")
                o.contract = re.sub(r"\s+", " ", o.contract).strip()[:600]
            if not fr.ok:
                kinds = [k for k, _, _ in fr.errors]
                # lost proof *hints* only: a `bodysub`/`sigsub`/`lift-nested` rewrite that no longer matches means the
                # text it adapts is gone, so nothing needs adapting (if something does, Verus rejects the file and the
                # unit is undecided as an unsupported construct)
                lost_here = [an for fn_, an in (em.lost_anchors if em is not None else []) if fn_ == fname
                             and not an.startswith(("bodysub", "sigsub", "lift-nested"))]
                if kinds and all(k == "rlimit" for k in kinds):
                    o.status = "undecided"
                    self.undecided.append((o.name, "rlimit"))
                elif lost_here:
                    # a proof hint of this function could not be placed (the statement it is anchored to is
                    # gone): the failure may be a missing hint, not a broken property -> undecided, never an alarm
                    o.status = "undecided"
                    self.undecided.append((o.name, "lost-anchor(%s)" % "; ".join(lost_here)))
                else:
                    o.status = "failed"
                    o.kind = "; ".join(sorted(set(k for k in kinds if k != "rlimit")))
                o.detail = "\n\n".join(b for _, _, b in fr.errors)
            self.obls.append(o)

    # ------------------------------------------------------------------ kani
    def add_kani(self, kres):
        self.checker_cmds += kres.cmds
        for k, v in kres.solver_s.items():
            self.solver_s[k] = v
        self.trusted += kres.trusted
        self.functions += kres.functions
        self.assumptions += kres.assumptions
        for r in kres.undecided:
            self.undecided.append(r)
        for h in kres.harnesses:
            o = Obl("kani/" + h["name"], "kani/cbmc", h["status"] == "ok")
            o.time_s = h.get("time_s", 0.0)
            o.contract = h.get("doc", "")
            o.src = h.get("target", "")
            o.bounded = h.get("bounded")
            if h["status"] == "ok":
                o.status = "bounded-ok" if o.bounded else "discharged"
            elif h["status"] == "failed":
                o.status = "failed"
                o.kind = h.get("kind", "kani check failed")
                o.detail = h.get("detail", "")
                o.witness = h.get("witness")
            else:
                o.status = "undecided"
                self.undecided.append((o.name, h.get("reason", "timeout")))
            self.obls.append(o)

    # ------------------------------------------------------------------ canaries
    def run_canaries(self, cfg):
        from . import canary
        self.canaries = canary.run(self.prop, cfg, self.repo, self)
        for n, killed, detail in self.canaries:
            if killed is None and n.endswith("[tail]"):
                # the tail probe could not be placed without breaking a unit rewrite (e.g. a rewritten struct literal at the tail):
                # recorded in the evidence, not a verdict
                continue
            if killed is None:
                self.undecided.append((n, "vacuity-probe: " + detail))
            elif not killed:
                self.undecided.append((n, "vacuous-contract: " + detail))

    # ------------------------------------------------------------------ verdict
    def finish(self, write_evidence=True):
        known = {"findings": [], "fixed": []}
        if os.path.exists(KNOWN):
            known = json.load(open(KNOWN))
        failed = [o for o in self.obls if o.status == "failed"]
        violations = []
        known_hits = []
        for o in failed:
            # all listed findings for this property and obligation; the obligation is suppressed only if EVERY failing
            # diagnostic of it matches the pattern of one of them (a different failure of the same function is a violation)
            ks = [k for k in known.get("findings", [])
                  if (self.prop in k.get("properties", [k.get("property")]) or k.get("property") == "*") and k.get("obligation") == o.name]
            blocks = [b for b in o.detail.split("\n\n") if b.strip().startswith("error")] or [o.detail + " " + o.kind]
            used = []
            ok = bool(ks)
            for b in blocks:
                m = [k for k in ks if not k.get("match") or re.search(k["match"], b)]
                if not m:
                    ok = False
                    break
                for k in m:
                    if k not in used:
                        used.append(k)
            if ok:
                for k in used:
                    known_hits.append((o, k))
            else:
                violations.append(o)
        # witness search for violations
        if violations:
            from . import witness
            for o in violations:
                if o.witness is None:
                    try:
                        o.witness = witness.search(o.name, self.repo)
                    except Exception as e:  # never let the search mask the verdict
                        self.notes.append("witness search failed for %s: %r" % (o.name, e))
        os.makedirs(REPLAYS, exist_ok=True)
        # findings that are carved out of a contract by a precondition (or are outside any obligation):
        # their concrete input is replayed against the real library on every run
        demo_ids = [k["id"] for k in known.get("findings", []) if self.prop in k.get("properties", [k.get("property")]) and k.get("demo")]
        if demo_ids:
            from . import witness
            try:
                demos = witness.run_finding_demos(demo_ids, self.repo)
            except Exception as e:
                demos = {i: (None, "demo error %r" % (e,)) for i in demo_ids}
            seen_ids = set()
            for k in known.get("findings", []):
                if k.get("id") in demos and k.get("id") in seen_ids:
                    k["_printed"] = True
                    continue
                if k.get("id") in demos:
                    seen_ids.add(k["id"])
                    rep, text = demos[k["id"]]
                    if rep:
                        print("KNOWN-FINDING: property=%s %s: %s [%s]" % (self.prop, k["id"], k.get("what", ""), text))
                        self.known_demo.append({"id": k["id"], "what": k.get("what"), "reproduced": text})
                        k["_printed"] = True
                    elif rep is False:
                        print("NOTE known finding %s no longer reproduces on this tree" % k["id"])
                    else:
                        print("NOTE known finding %s: %s" % (k["id"], text))
        for o, k in known_hits:
            if not k.get("_printed"):
                print("KNOWN-FINDING: property=%s %s (%s)" % (self.prop, k.get("what", ""), o.name))
        for o in violations:
            path = os.path.join(REPLAYS, "%s-%s.json" % (self.prop, slug(o.name)))
            rec = {
                "property": self.prop,
                "obligation": o.name,
                "backend": o.backend,
                "failure": o.kind,
                "source": o.src,
                "contract": o.contract,
                "verifier_output": o.detail,
                "failing_input": o.witness,
                "replay": "./check %s --replay %s" % (self.prop, path),
            }
            with open(path, "w") as f:
                json.dump(rec, f, indent=1)
            tail = "" if o.witness else " no-failing-input-found"
            print("FAILED-OBLIGATION property=%s obligation=%s backend=%s kind=%s source=%s" % (self.prop, o.name, o.backend, o.kind.replace(" ", "_")[:80], o.src))
            print("VIOLATION property=%s replay=%s%s" % (self.prop, path, tail))
        for name, reason in self.undecided:
            print("UNDECIDED property=%s obligation=%s reason=%s" % (self.prop, name, reason))
        for l in self.lost:
            print("NOTE " + l)
        n_obl = len([o for o in self.obls if o.status in ("discharged", "failed", "undecided") and not o.bounded])
        n_dis = len([o for o in self.obls if o.status == "discharged"])
        n_bounded = len([o for o in self.obls if o.bounded])
        if not self.obls and not self.undecided:
            print("UNDECIDED property=%s obligation=* reason=no-obligations-generated" % self.prop)
            self.undecided.append(("*", "no-obligations-generated"))
        rc = 1 if violations else (2 if self.undecided else 0)
        print("%s: %d obligations, %d discharged, %d bounded stand-ins, %d known findings, %d violations, %d undecided (%.1fs)" % (
            self.prop, n_obl, n_dis, n_bounded, len(known_hits) + len(self.known_demo), len(violations), len(self.undecided), self.wall_s))
        if write_evidence:
            self.write_evidence(n_obl, n_dis, known_hits, violations)
        return rc

    def _only_known(self, o, k):
        """A known finding suppresses an obligation only if every diagnostic of that obligation
        matches the finding's `match` pattern (so a *different* failure of the same function
        is still a violation)."""
        pat = k.get("match")
        if not pat:
            return True
        blocks = [b for b in o.detail.split("\n\n") if b.strip()]
        if not blocks:
            return True
        return all(re.search(pat, b) for b in blocks)

    def write_evidence(self, n_obl, n_dis, known_hits, violations):
        os.makedirs(EVID, exist_ok=True)
        known_names = set(o.name for o, _ in known_hits)
        obls = [o for o in self.obls if o.name not in known_names]
        proof_obls = [o for o in obls if not o.bounded]
        samples = []
        for o in proof_obls[:6] + [o for o in obls if o.bounded][:2]:
            samples.append({"obligation": o.name, "backend": o.backend, "status": o.status, "source": o.src, "contract": o.contract[:400], "time_s": round(o.time_s, 3)})
        trusted = sorted(set(self.trusted))
        cov = {
            "obligations": len(proof_obls),
            "discharged": len([o for o in proof_obls if o.status == "discharged"]),
            "checker_cmd": " ; ".join(self.checker_cmds) or "none",
            "trusted_base": trusted,
            "samples": samples,
            "functions_under_contract": sorted(set(self.functions)),
            "obligation_list": [{"name": o.name, "backend": o.backend, "status": o.status, "time_s": round(o.time_s, 3), "bounded": o.bounded} for o in obls],
            "bounded": [{"name": o.name, "bound": o.bounded, "status": o.status} for o in obls if o.bounded],
            "known_findings": [{"obligation": o.name, "what": k.get("what")} for o, k in known_hits] + self.known_demo,
            "solver_s": self.solver_s,
            "lost_anchors": self.lost,
            "undecided": [{"obligation": n, "reason": r} for n, r in self.undecided],
            "canaries": [{"name": n, "killed": k, "detail": d} for n, k, d in self.canaries],
            "extraction_dropped": sorted(set(self.dropped))[:200],
            "explanation": "Each obligation is one function of /repo (cut from the current working tree on this run) verified against its contract by Verus/Z3, or one Kani proof harness on a scratch copy of the real crate; obligations == discharged means every one was accepted by the verifier on this run. Bounded stand-ins are listed separately and never counted.",
        }
        ev = {
            "property_id": self.prop,
            "tier": self.tier,
            "seed": self.seed,
            "level": "proof",
            "coverage": cov,
            "assumptions": sorted(set(self.assumptions + GLOBAL_ASSUMPTIONS)),
            "wall_s": round(self.wall_s, 2),
            "violations": len(violations),
        }
        with open(os.path.join(EVID, self.prop + ".json"), "w") as f:
            json.dump(ev, f, indent=1)


GLOBAL_ASSUMPTIONS = [
    "Verus 0.2026.09.13, Z3, Kani 0.68, CBMC 6.11, rustc are correct",
    "extraction rewrites R1-R12 (DESIGN.md 2.2) preserve meaning: attributes/comments dropped, pub(crate)->pub, local const->let, err!(..)->opaque Error, debug_assert!->static assert, x%=e -> x = x % e, closure contracts added",
    "std specs supplied via assume_specification (div_euclid, rem_euclid, abs, unwrap_or_else, ...) are listed in coverage.trusted_base",
    "machine integers are treated bit-precisely (Verus checks overflow of every executable arithmetic op; spec arithmetic is mathematical)",
]


def do_replay(prop, path, repo):
    rec = json.load(open(path))
    print("replaying %s" % rec["obligation"])
    if rec.get("failing_input"):
        from . import witness
        ok = witness.replay(rec["obligation"], rec["failing_input"], repo)
        print("REPRODUCED" if ok else "NOT-REPRODUCED")
        return 1 if ok else 0
    print("no concrete input recorded; verifier output at the time of the report:\n")
    print(rec.get("verifier_output", ""))
    print("\nre-running the deciding check ...")
    return subprocess.call([os.path.join(VERIF, "check"), prop, "--no-evidence"])
