"""Which contract units / harness groups decide which property, per tier.

verus: unit names under contracts/verus/<name>.vrs
kani : harness group names under contracts/kani/<group>.rs (see vfw/kani_run.py)
"""

STATIC = {
    "src/shared/util/itime.rs": "crates/jiff-static/src/shared/util/itime.rs",
    "src/shared/posix.rs": "crates/jiff-static/src/shared/posix.rs",
    "src/shared/tzif.rs": "crates/jiff-static/src/shared/tzif.rs",
}

# verus entries: "unit" or ("unit", "variant-tag", source_map)
PROPS = {
    "C01": dict(
        title="Civil calendar facts are exactly the proleptic Gregorian calendar",
        verus=["itime", ("itime", "_static", STATIC), "kspec", "civiladd", "isoweek", "civilwith"],
        kani_quick=["c01_civil", "c01_isoweek"],
        kani_thorough=[],
        design_ref="DESIGN.md section 4, C01",
    ),
    "C02": dict(
        title="Instant <-> civil datetime under a fixed offset is exact and invertible",
        verus=["itime", ("itime", "_static", STATIC), "kspec", "tsarith"],
        kani_quick=["c02_wrappers"],
        kani_thorough=[],
        design_ref="DESIGN.md section 4, C02",
    ),
    "C03": dict(
        whole_units=("posix",),
        title="Offset, DST flag and abbreviation for an instant match the TZ data",
        verus=["tzif", "posix", ("posix", "_static", STATIC), "tzdispatch"],
        kani_quick=["c17_tzif", "c03_tzdt", "c17_posix", "c18_designation", "c03_posix_wrappers"], kani_thorough=[],
        design_ref="DESIGN.md section 4, C03",
    ),
    "C04": dict(
        whole_units=("posix",),
        title="Civil-to-instant resolution finds gaps/folds exactly; strategies as documented",
        verus=["tzif", "posix", "ambig", "zoned", "tzdispatch"],
        kani_quick=["c03_tzdt"], kani_thorough=[],
        design_ref="DESIGN.md section 4, C04",
    ),
    "C14": dict(
        whole_units=("posix",),
        title="Transition iterators yield exactly the instants where zone offset info changes",
        verus=["tzif", "posix", ("posix", "_static", STATIC), "tzdispatch"],
        kani_quick=["c03_posix_wrappers"], kani_thorough=[],
        design_ref="DESIGN.md section 4, C14",
    ),
    "C10": dict(
        title="Rounding a datetime yields the correct multiple of the increment for every mode",
        verus=["round", "rounders", "zonedround", "offround"],
        kani_quick=[], kani_thorough=["c10_model"],
        design_ref="DESIGN.md section 4, C10",
    ),
    "C12": dict(
        title="Span and SignedDuration are faithful value types with enforced limits",
        verus=["sdur", "span", "spanconv"],
        kani_quick=["c12_sdur_float", "c12_sdur_float_native"], kani_thorough=["c10_model"],
        design_ref="DESIGN.md section 4, C12",
    ),
    "C06": dict(
        title="Zoned arithmetic is DST-aware: calendar units on wall clock, time units exact",
        verus=["zoned", "tsarith", "span", "civiladd"],
        kani_quick=[], kani_thorough=[],
        design_ref="DESIGN.md section 4, C06",
    ),
    "C13": dict(
        title="Every Zoned value is internally consistent with its time zone",
        verus=["zoned", "ambig", "zonedround", "posix", "tzif", "tzdispatch", "itime"],
        kani_quick=["c03_posix_wrappers", "c02_wrappers"], kani_thorough=[],
        design_ref="DESIGN.md section 4, C13",
    ),
    "C18": dict(
        title="All ways of loading a time zone give the same zone",
        verus=["posix", ("posix", "_static", STATIC)],
        all_fns=True,
        kani_quick=["c17_tzif", "c18_designation", "c18_static_quote", "c18_name_cmp"], kani_thorough=[],
        design_ref="DESIGN.md section 4, C18",
        level_text="Narrow claim: the two copies of the shared time-zone core (src/shared/** used by jiff and the generated crates/jiff-static/src/shared/** used by the static-zone macros) each satisfy the SAME functional contracts (result == spec(args)) for the calendar core and the POSIX rule evaluation, hence agree with each other on every input; a drift in either copy fails a named obligation. Database back-ends, proc-macro expansion and slim/fat zic output are not covered (DESIGN.md section 4, C18).",
    ),
    "C05": dict(
        title="Fallible operations return errors: no panics, no out-of-range results",
        verus=["posix", "tzif", "rounders", "sdur", "zoned", "span", "civiladd", "civildiff", "ambig", "isoweek", "spanround", "zonedround", "tsarith", "offround", "dtdiff", "zoneddiff", "tzdispatch", "civilarith", "civilwith", "spanconv"],
        all_fns=True,
        kani_quick=["c01_civil", "c02_wrappers", "c10_model"],
        kani_thorough=["c10_model"],
        design_ref="DESIGN.md section 4, C05",
        level_text="Per-function claim over an explicit list (evidence.coverage.functions_under_contract): every extracted function is verified by Verus to be free of panics (assert!/unreachable!/unwrap/expect/indexing), arithmetic overflow and failed debug assertions for ALL inputs satisfying its stated type invariants, and its Ok results satisfy the range stated in its postcondition; the ranged-integer wrappers in the Kani groups are checked bit-precisely for panics and for Ok values inside the type's range. Entry points not on the list are not covered.",
    ),
    "C20": dict(
        title="TimeZone handles are memory-safe values under clone, drop, compare and sharing",
        verus=["tzrepr", "tzdispatch"],
        kani_quick=[], kani_thorough=[],
        design_ref="DESIGN.md section 4, C20",
        level_text="Narrow claim: the pointer-free kinds of the tagged-pointer representation (UTC, unknown, fixed offset): for every offset in -93599..=93599 s the encode/decode pair Repr::fixed / Repr::get_fixed is the identity (sign-extending shift included) and the tag bits identify the kind; tags are pairwise distinct. Arc-backed kinds (clone/drop/refcount), multi-threaded sharing and leak freedom are NOT decided by this check (DESIGN.md section 4, C20).",
        level_note="Trusted: the strict-provenance pair addr(without_provenance(a)) == a (pointer model in the prelude), i32::checked_shl spec, Verus/Z3 bit-vector reasoning; plus the global trusted base.",
    ),
    "C08": dict(
        title="Civil date/time arithmetic follows the documented calendar rules",
        verus=["civiladd", "civilarith"],
        kani_quick=[], kani_thorough=["c10_model"],
        design_ref="DESIGN.md section 4, C08",
    ),
    "C07": dict(
        title="Differences are reversible, balanced and sign-consistent for every largest unit",
        verus=["civildiff", "tsarith", "dtdiff", "zoneddiff"],
        kani_quick=[], kani_thorough=["c10_model"],
        design_ref="DESIGN.md section 4, C07",
        level_text="Date differences (Date::until/since, DateDifference::since_with_largest_unit) for every pair of dates and every largest unit: the result equals an explicit specification diff_spec, is reversible w.r.t. the C08 addition semantics, sign-consistent, has no unit above the largest and is balanced; panic-free. Timestamp and Time differences (until/since on the rounding-free configuration, duration_until/duration_since) for every pair and every largest unit: result == the exact nanosecond distance balanced up to the largest unit, reversible, one sign, exact Err condition (unit tsarith). Civil DateTime differences (unit dtdiff: DateTimeDifference::until_with_largest_unit, DateTime::until/since on the rounding-free configuration, duration_until/since) for every pair and every largest unit: result == explicit spec (date difference with the one-day borrow joined with the balanced time remainder), a + s == b through the C08 addition contract (composition harness verif_c07_roundtrip), one sign, nothing above the largest unit, balanced up to the month-end clamping exception that Temporal also has; exact Err condition. Zoned differences (unit zoneddiff: ZonedDifference::until_with_largest_unit, Zoned::until/since, rounding-free configuration, for every zone satisfying the C03/C04 contracts): exact Err condition, exact result in every branch, nothing above the largest unit, carry limits, since == negated until, and -- whenever the intermediate civil date does not lie on the other side of the start's date -- round trip through the C06 addition, one sign and balance; the two panics, the unconditional sign/round-trip clauses and the day-balance clause FAIL and are the open findings F7, F19, F23.",
    ),
    "C09": dict(
        title="Datetimes print to RFC 3339/9557 text that parses back to the same value",
        verus=[],
        kani_quick=["c09_printer", "c17_offset", "c09_datetime", "c09_offset_optional", "c09_zoned_native"], kani_thorough=[],
        design_ref="DESIGN.md section 4, C09",
        level_text="Civil part + offsets, on the real printer and parser (Kani, full domain, no bounded stand-in): for EVERY Date / Time / DateTime the default printed form is the ISO 8601 text an independent digit-by-digit reader decodes to the same fields (years < 0 as -YYYYYY), the real date/time parsers equal that reader on every byte string of the relevant shapes, and parse(print(x)) == x (thorough-tier round-trip harnesses; quick tier: printers + time parser); offsets: print_offset_rounded / full_precision for every offset, and (thorough) the offset parser returns exactly the printed offset. Zoned: BOUNDED native check over every zone of the bundled database (local-mean-time period, the first six transitions, modern instants): print then parse gives the same instant, offset, civil time and zone. NOT decided: Timestamp printing end to end, non-default printer options, serde. Known findings F24 (years < 0 print as -YYYYYY, not RFC 3339) and F28 (a fold whose two offsets round to the same minute prints two instants identically).",
    ),
    "C11": dict(
        title="Span balancing and rounding are exact relative to a reference",
        verus=["spanround", "span"],
        kani_quick=["c11_round_float", "c11_round_float_native", "c11_relative_calendar"], kani_thorough=["c10_model"],
        design_ref="DESIGN.md section 4, C11",
        level_text="Uniform-unit part, on the real span.rs code for every span, unit, increment and mode: Span::to_invariant_nanoseconds / from_invariant_nanoseconds (balancing conserves the exact nanosecond count, no unit above the largest, one sign, Ok iff the top unit is within its Span limit), round_span_invariant (no reference: result = balanced form of THE mode-prescribed multiple, calendar units refused via requires_relative_date_err), Nudge::relative_invariant (civil/zoned reference, smallest <= week: conservation, rounded end instant moves by exactly rounded - original) and Nudge::relative_zoned_time (zoned reference, sub-day smallest: day added in the span's direction exactly when rounding reaches the day's real end, end instant consistent with the span). Calendar-unit rounding goes through f64: RoundMode::round_float is decided by Kani (IEEE-754 bit-precise, full stated domain) for the five modes without a floating-point `%` and by a BOUNDED native enumeration against the exact-rational round_ok for all nine (Kani 0.68 mis-models f64 `%`). Nudge::relative_calendar: the window the progress is interpolated in (start multiple toward zero, one signed increment long) is pinned by a Kani probe harness; NOT decided: its f64 interpolation end to end and bubble (loops over calendar units), total() (floating point), compare(), SpanRound::round dispatch.",
    ),
    "C16": dict(
        title="strftime/strptime and RFC 2822 agree with the calendar and invert each other",
        verus=["kspec"],
        kani_quick=["c16_strftime", "c16_fields", "c16_parse", "c16_todate", "c16_rfc2822_offset"], kani_thorough=[],
        design_ref="DESIGN.md section 4, C16",
        level_text="Numeric strftime/strptime on the real Formatter / Parser methods (Kani; full domain unless a harness is labelled bounded): every numeric specifier prints the value the C library defines with the documented padding for ALL dates/times/offsets (%j %U %W %u %w %Y %y %C %m %d %e %H %k %I %l %M %S %p %P %G %g %V %s %f %z, flags and widths), the field parsers accept exactly the documented shapes with the decoded in-range value on every byte window, BrokenDownTime::to_date reconstructs the date from (Y,m,d), (Y,j) and (G,V,u), and (thorough tier) format-then-parse round trips.  NOT decided: the directive loop of Parser::parse as a whole (CBMC runs out of memory), %U/%W-based date reconstruction, locale names beyond %a %b %B %A, RFC 2822.  Known finding F26: %A cannot parse \"Tuesday\" (misspelt table entry pinned by a repository snapshot test).",
    ),
    "C17": dict(
        title="Parsers are total: arbitrary input gives Ok or Err, and Ok values are sane",
        verus=["tzif", "posix"],
        kani_quick=["c17_tzif", "c17_posix", "c17_offset", "c18_designation", "c09_datetime", "c09_offset_optional", "c16_parse", "c16_rfc2822_offset", "c17_friendly_native"], kani_thorough=[],
        design_ref="DESIGN.md section 4, C17",
        level_text="TZif part only. Proof (loop-free, full domain): the 44-byte TZif header parser and all block-length computations never panic and return exact products or Err on overflow. Bounded stand-ins (bounds stated in evidence.coverage.bounded, never counted as proved): the transition-type and local-time-type block parsers on 2 records. 'A time zone built from accepted data answers every lookup without panicking' is the Verus obligations of the tzif and posix units (tables of any length, every rule) under the well-formedness that the block parsers establish (type indices < number of types, offsets in range). NOT decided: Temporal/friendly/RFC 2822/strptime/offset/RFC 9557/POSIX-TZ text parsers, 'work proportional to input'.",
    ),
}

NOT_APPLICABLE = {
    "C15": "duration text round trip over >1000 printer configurations: ~6000 lines of byte-string/iterator code outside Verus' subset and beyond CBMC at any useful buffer size (measured); no contract within reach decides it (DESIGN.md section 5)",
    "C19": "quantifies over file-system histories, monotonic clock readings and thread interleavings around an RwLock; Kani has no threads/fs/Instant model and Verus would need a re-implementation (a model, not the code) (DESIGN.md section 5)",
}

# properties with a design but no committed check yet (kept current as the build proceeds)
NOT_YET = {p: "check not built yet in this session (design in DESIGN.md section 4); not claimed" for p in
           []}
