"""Run Kani proof harnesses on a scratch copy of the *real* crate.

The copy is an rsync of /repo's working tree (no target/, no .git); the only additions are
`#[cfg(kani)] mod verif_kani;` appended to src/lib.rs and the harness modules from
/verif/contracts/kani/*.rs dropped under src/verif_kani/.  Harness metadata is carried in
`//@key value` comment lines immediately above each `#[kani::proof]` function:

    //@harness  name            (must equal the fn name)
    //@target   path::to::fn (file)
    //@prop     C01 C05
    //@tier     quick | thorough
    //@mode     rel | dbg       (debug assertions off / on; default rel)
    //@features alloc           (default: none = --no-default-features)
    //@bounded  text            (present => bounded stand-in, never counted as proved)
    //@timeout  seconds
    //@doc      contract in words
"""
import os
import re
import shutil
import subprocess
import tempfile
import time

VERIF = os.path.dirname(os.path.dirname(os.path.abspath(__file__)))
KDIR = os.path.join(VERIF, "contracts", "kani")
SCRATCH_ROOT = os.environ.get("VERIF_SCRATCH", "/var/tmp")


class KaniResult:
    def __init__(self):
        self.harnesses = []
        self.cmds = []
        self.solver_s = {}
        self.trusted = []
        self.functions = []
        self.assumptions = []
        self.undecided = []


def parse_group(path):
    """Return list of harness dicts from a group file."""
    hs = []
    cur = {}
    for line in open(path).read().split("\n"):
        m = re.match(r"\s*//@(\w+)\s*(.*)$", line)
        if m:
            cur[m.group(1)] = m.group(2).strip()
            continue
        m = re.match(r"\s*(?:pub\s+)?fn\s+(\w+)\s*\(", line)
        if m and "harness" in cur:
            if cur["harness"] != m.group(1):
                raise ValueError("%s: //@harness %s does not match fn %s" % (path, cur["harness"], m.group(1)))
            cur["group"] = os.path.basename(path)[:-3]
            hs.append(cur)
            cur = {}
    return hs


def scan_trusted(path):
    out = []
    base = os.path.basename(path)
    for ln, l in enumerate(open(path).read().split("\n"), 1):
        if re.search(r"kani::stub\(|kani::assume\(|stub_verified|unsafe\s*\{|static mut", l):
            out.append("%s:%d: %s" % (base, ln, l.strip()[:160]))
    return out


def make_scratch(repo, groups, support):
    d = tempfile.mkdtemp(prefix="jiff-verif-kani-", dir=SCRATCH_ROOT)
    subprocess.check_call(["rsync", "-a", "--exclude", "target", "--exclude", ".git", repo.rstrip("/") + "/", d + "/"])
    vk = os.path.join(d, "src", "verif_kani")
    os.makedirs(vk)
    mods = []
    for g in list(support) + list(groups):
        text = open(os.path.join(KDIR, g + ".rs")).read()
        m = re.search(r"(?m)^//@inject\s+(\S+)", text)
        if m:
            # harnesses that need private items: appended INSIDE the module of the scratch copy's source file
            target = os.path.join(d, m.group(1))
            # a group marked `//@native` holds ordinary #[test] functions (bounded native checks of the real code)
            cfgname = "test" if re.search(r"(?m)^//@native\b", text) else "kani"
            with open(target, "a") as f:
                f.write("\n#[cfg(%s)]\n#[allow(unused, non_snake_case)]\nmod verif_%s {\n%s\n}\n" % (cfgname, g, text))
            continue
        shutil.copy(os.path.join(KDIR, g + ".rs"), os.path.join(vk, g + ".rs"))
        mods.append("pub mod %s;" % g)
    with open(os.path.join(vk, "mod.rs"), "w") as f:
        f.write("#![allow(unused, non_snake_case, static_mut_refs)]\n" + "\n".join(mods) + "\n")
    with open(os.path.join(d, "src", "lib.rs"), "a") as f:
        f.write("\n#[cfg(kani)]\nmod verif_kani;\n")
    os.makedirs(os.path.join(d, ".cargo"), exist_ok=True)
    with open(os.path.join(d, ".cargo", "config.toml"), "a") as f:
        f.write("\n[net]\noffline = true\n")
    return d


def _run_batch(d, hs, mode, features, jobs, res, per_timeout, solver=""):
    names = [h["harness"] for h in hs]
    cmd = ["cargo", "kani", "--no-default-features"]
    if features:
        cmd += ["--features", features]
    cmd += ["-Z", "function-contracts", "-Z", "stubbing", "-Z", "unstable-options", "--harness-timeout", "%ds" % per_timeout,
            "--output-format", "terse", "-j", str(jobs)]
    for n in names:
        cmd += ["--harness", n]
    if solver == "z3":
        # SMT back end: word-level reasoning (two occurrences of the same division are the same term)
        cmd += ["--cbmc-args", "--z3"]
    env = dict(os.environ)
    env["CARGO_NET_OFFLINE"] = "true"
    env["CARGO_TARGET_DIR"] = os.path.join(d, "target-%s-%s" % (mode, features or "core"))
    if mode == "rel":
        env["CARGO_PROFILE_DEV_DEBUG_ASSERTIONS"] = "false"
        env["CARGO_PROFILE_DEV_OVERFLOW_CHECKS"] = "true"
    res.cmds.append("(scratch copy of /repo + src/verif_kani) %s%s%s  # %d harnesses" % (
        "CARGO_PROFILE_DEV_DEBUG_ASSERTIONS=false " if mode == "rel" else "", " ".join(cmd[:12]) + " --harness ...",
        " --cbmc-args --z3" if solver == "z3" else "", len(names)))
    t0 = time.time()
    try:
        p = subprocess.run(cmd, cwd=d, env=env, stdout=subprocess.PIPE, stderr=subprocess.STDOUT, text=True,
                           timeout=per_timeout * max(1, (len(names) + jobs - 1) // jobs) + 600)
        out = p.stdout
    except subprocess.TimeoutExpired as e:
        out = (e.stdout or b"").decode("utf8", "replace") if isinstance(e.stdout, bytes) else (e.stdout or "")
        out += "\n<<batch timeout>>\n"
    wall = time.time() - t0
    try:
        os.makedirs(os.path.join(VERIF, "build"), exist_ok=True)
        with open(os.path.join(VERIF, "build", "kani-%s-%s-%s%s.log" % (hs[0]["group"], mode, features or "core", "-" + solver if solver else "")), "w") as f:
            f.write(out)
    except OSError:
        pass
    res.solver_s["kani:%s:%s%s" % (mode, features or "core", ":" + solver if solver else "")] = round(wall, 1)
    return out


def _run_native(d, hs, res, per_timeout):
    """`//@mode native`: the harness is a #[test] fn injected into the scratch copy; run natively (release profile, debug
    assertions off, default features).  Always a bounded stand-in (the harness states its bound in //@bounded)."""
    results = {}
    env = dict(os.environ)
    env["CARGO_NET_OFFLINE"] = "true"
    env["CARGO_TARGET_DIR"] = os.path.join(d, "target-native")
    env["CARGO_PROFILE_RELEASE_DEBUG_ASSERTIONS"] = "false"
    pkg = [x for x in set(h.get("package", "") for h in hs) if x]
    feats = [x for x in set(h.get("features", "") for h in hs) if x]
    cmd = ["cargo", "test", "--release", "--lib", "--offline"] + (["-p", pkg[0]] if pkg else []) + (["--features", feats[0]] if feats else []) + ["--"] + [h["harness"] for h in hs]
    res.cmds.append("(scratch copy of /repo + injected #[cfg(test)] module) cargo test --release --lib --offline -- %s" % " ".join(h["harness"] for h in hs))
    t0 = time.time()
    try:
        p = subprocess.run(cmd, cwd=d, env=env, stdout=subprocess.PIPE, stderr=subprocess.STDOUT, text=True, timeout=per_timeout + 900)
        out = p.stdout
    except subprocess.TimeoutExpired as e:
        out = (e.stdout or b"").decode("utf8", "replace") if isinstance(e.stdout, bytes) else (e.stdout or "")
        out += "\n<<timeout>>\n"
    res.solver_s["native-test"] = round(time.time() - t0, 1)
    try:
        with open(os.path.join(VERIF, "build", "native-%s.log" % hs[0]["group"]), "w") as f:
            f.write(out)
    except OSError:
        pass
    for h in hs:
        n = h["harness"]
        m = re.search(r"(?m)^test \S*::%s \.\.\. (ok|FAILED)" % re.escape(n), out)
        if not m:
            errs = re.findall(r"(?ms)^error(?:\[E\d+\])?:.*?(?=^error|^warning|\Z)", out)
            results[n] = {"status": "undecided", "reason": "compile-error" if errs else "no-result", "detail": ("\n".join(errs) or out[-1500:])[:3000]}
        elif m.group(1) == "ok":
            results[n] = {"status": "ok"}
        else:
            mm = re.search(r"(?ms)^---- \S*::%s stdout ----\n(.*?)(?=^---- |^failures:)" % re.escape(n), out)
            results[n] = {"status": "failed", "kind": "native bounded check failed", "detail": (mm.group(1) if mm else out[-2000:])[:3000]}
    return results


def _blocks(out):
    """Split terse output into {harness short name: block text}.  Under -j each block is
    prefixed `Thread N:`; the harness a thread is working on is announced by
    `Thread N: Checking harness <path>...`."""
    blocks = {}
    cur_by_thread = {}
    cur = None
    for line in out.split("\n"):
        m = re.match(r"(?:Thread (\d+): )?Checking harness ([\w:]+)\.\.\.", line)
        if m:
            name = m.group(2).split("::")[-1]
            cur_by_thread[m.group(1)] = name
            cur = name
            blocks.setdefault(name, "")
            continue
        m = re.match(r"Thread (\d+): ?(.*)$", line)
        if m:
            cur = cur_by_thread.get(m.group(1))
            line = m.group(2)
        if re.match(r"(Manual Harness Summary|Complete - |Verification failed for)", line):
            cur = None
        if cur is not None:
            blocks[cur] += line + "\n"
    return blocks


def _classify(out, hs, mode):
    """Map terse output to per-harness status."""
    results = {}
    compile_error = bool(re.search(r"(?m)^error(\[E\d+\])?:", out)) and "Checking harness" not in out
    blocks = _blocks(out)
    for h in hs:
        n = h["harness"]
        st = {"status": "undecided", "reason": "no-result", "detail": ""}
        blk = blocks.get(n)
        if blk is not None:
            if "VERIFICATION:- SUCCESSFUL" in blk:
                st = {"status": "ok"}
                tm = re.search(r"Verification Time: ([\d.]+)s", blk)
                if tm:
                    st["time_s"] = float(tm.group(1))
                nm = re.search(r"\*\* 0 of (\d+) failed", blk)
                if nm:
                    st["checks"] = int(nm.group(1))
            elif "VERIFICATION:- FAILED" in blk:
                fails = re.findall(r"(?m)^Failed Checks: (.*)$", blk)
                low = blk.lower()
                if "timed out" in low or "out of memory" in low or "cbmc failed" in low or "killed" in low:
                    st = {"status": "undecided", "reason": "timeout-or-oom", "detail": blk[-1500:]}
                elif fails and all("unwinding assertion" in f or "recursion" in f for f in fails):
                    st = {"status": "undecided", "reason": "unwinding-bound", "detail": blk[-1500:]}
                else:
                    st = {"status": "failed", "kind": "; ".join(fails[:4]) or "kani check failed", "detail": blk[-3000:]}
            elif "timed out" in blk.lower():
                st = {"status": "undecided", "reason": "timeout", "detail": blk[-500:]}
        elif compile_error:
            errs = re.findall(r"(?ms)^error(?:\[E\d+\])?:.*?(?=^error|^warning|\Z)", out)
            st = {"status": "undecided", "reason": "compile-error", "detail": "\n".join(errs)[:3000]}
        results[n] = st
    return results


def _playback(d, h, mode, features, per_timeout):
    """Re-run one failed harness with concrete playback to get the input bytes and the failed checks."""
    cmd = ["cargo", "kani", "--no-default-features"]
    if features:
        cmd += ["--features", features]
    cmd += ["-Z", "function-contracts", "-Z", "stubbing", "-Z", "unstable-options", "-Z", "concrete-playback", "--concrete-playback=print",
            "--harness-timeout", "%ds" % per_timeout, "--harness", h["harness"]]
    env = dict(os.environ)
    env["CARGO_NET_OFFLINE"] = "true"
    env["CARGO_TARGET_DIR"] = os.path.join(d, "target-%s-%s" % (mode, features or "core"))
    if mode == "rel":
        env["CARGO_PROFILE_DEV_DEBUG_ASSERTIONS"] = "false"
    try:
        p = subprocess.run(cmd, cwd=d, env=env, stdout=subprocess.PIPE, stderr=subprocess.STDOUT, text=True, timeout=per_timeout + 300)
    except subprocess.TimeoutExpired:
        return None, ""
    out = p.stdout
    m = re.search(r"Concrete playback unit test for `[^`]*`:\s*```(.*?)```", out, re.S)
    test = m.group(1).strip() if m else None
    blocks = re.split(r"(?m)^(?=Check \d+: )", out)
    fails = "\n".join(b.strip() for b in blocks if re.match(r"Check \d+: ", b) and "Status: FAILURE" in b)[:3000]
    return test, fails


def decode_playback(test):
    """Extract the little-endian byte vectors and decode the obvious integer widths."""
    if not test:
        return None
    vals = []
    for m in re.finditer(r"//\s*(-?\d+[\w]*)[^\n]*\n\s*vec!\[([^\]]*)\]", test):
        vals.append(m.group(1))
    if not vals:
        for m in re.finditer(r"vec!\[([^\]]*)\]", test):
            bs = [int(x) for x in m.group(1).split(",") if x.strip()]
            vals.append(int.from_bytes(bytes(bs), "little", signed=True))
    return vals


def run_groups(groups, repo, prop, tier, only=None):
    res = KaniResult()
    support = ["spec"] if os.path.exists(os.path.join(KDIR, "spec.rs")) else []
    if os.path.exists(os.path.join(KDIR, "memo.rs")):
        support.append("memo")
    hs = []
    for g in groups:
        path = os.path.join(KDIR, g + ".rs")
        for h in parse_group(path):
            if prop not in h.get("prop", "").split() and prop != "*":
                continue
            if h.get("tier", "quick") == "thorough" and tier != "thorough":
                continue
            if only and h["harness"] not in only:
                continue
            hs.append(h)
        res.trusted += scan_trusted(path)
    for s in support:
        res.trusted += scan_trusted(os.path.join(KDIR, s + ".rs"))
    if not hs:
        return res
    d = None
    try:
        d = make_scratch(repo, groups, support)
        batches = {}
        n_playback = 0
        for h in hs:
            batches.setdefault((h.get("mode", "rel"), h.get("features", "") + ("|pkg=" + h["package"] if h.get("package") else ""), h.get("solver", "")), []).append(h)
        for (mode, features, solver), bh in sorted(batches.items()):
            per_timeout = max(int(h.get("timeout", "300")) for h in bh)
            jobs = min(8, len(bh))
            if mode == "native":
                for h in bh:
                    h.setdefault("bounded", "native enumeration (see //@doc)")
                cls = _run_native(d, bh, res, per_timeout)
            else:
                out = _run_batch(d, bh, mode, features, jobs, res, per_timeout, solver)
                cls = _classify(out, bh, mode)
            for h in bh:
                st = cls[h["harness"]]
                rec = {"name": "%s/%s[%s%s]" % (h["group"], h["harness"], mode, "," + solver if solver else ""), "status": st["status"], "doc": h.get("doc", ""),
                       "target": h.get("target", ""), "bounded": h.get("bounded"), "time_s": st.get("time_s", 0.0)}
                if st["status"] == "failed" and mode == "native":
                    rec["kind"] = st.get("kind", "")
                    rec["detail"] = st.get("detail", "")
                    rec["witness"] = {"native_output": st.get("detail", "")[:1500], "decoded_any_values": re.findall(r"WITNESS (.*)", st.get("detail", ""))[:3]}
                elif st["status"] == "failed" and n_playback >= 3:
                    # concrete playback re-runs the harness: only the first three failures of a run get a witness
                    rec["kind"] = st.get("kind", "")
                    rec["detail"] = st.get("detail", "")
                elif st["status"] == "failed":
                    n_playback += 1
                    test, fails = _playback(d, h, mode, features, per_timeout)
                    rec["kind"] = st.get("kind", "")
                    rec["detail"] = (fails or st.get("detail", ""))
                    vals = decode_playback(test)
                    if test:
                        rec["witness"] = {"kani_concrete_playback": test, "decoded_any_values": [str(v) for v in (vals or [])]}
                elif st["status"] == "undecided":
                    rec["reason"] = st.get("reason", "")
                    rec["detail"] = st.get("detail", "")
                res.harnesses.append(rec)
                res.functions.append("%s [kani harness %s]" % (h.get("target", "?"), h["harness"]))
    finally:
        if d and not os.environ.get("VERIF_KEEP_SCRATCH"):
            shutil.rmtree(d, ignore_errors=True)
    res.assumptions += [
        "Kani build uses --no-default-features (core only; `alloc` where a harness says so): the arithmetic under contract has no feature-gated logic",
        "mode rel = CARGO_PROFILE_DEV_DEBUG_ASSERTIONS=false (production semantics of ranged integers), mode dbg = debug assertions on",
        "64-bit little-endian target (Kani default)",
        "reference functions of contracts/kani/spec.rs equal the Verus specs of lib/greg.vrs: proved by unit kspec",
    ]
    return res
