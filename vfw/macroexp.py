"""R14: mechanical expansion of single-rule `macro_rules!` macros (DESIGN.md 9.3).

`//@expand NAME from REL/PATH.rs` in a unit makes the extractor read the macro's definition from /repo on every run
and expand every invocation `NAME! { .. }` / `path::NAME! { .. }` in the extracted functions -- the expansion is what
rustc would produce for a macro with ONE rule whose pattern consists of literal tokens and `$x:expr` / `$x:ident` /
`$x:ty` / `$x:block` captures (no repetitions).  Anything else raises, so that the unit is undecided instead of wrong.
"""
import re
from . import rs


class MacroError(Exception):
    pass


def _code(text):
    toks = rs.lex(text)
    return toks, [i for i in range(len(toks)) if toks[i].kind not in ("ws", "comment")]


def parse_definition(src_text, name):
    m = re.search(r"macro_rules!\s*%s\s*\{" % re.escape(name), src_text)
    if not m:
        raise MacroError("macro_rules! %s not found" % name)
    toks = rs.lex(src_text[m.end() - 1:])
    close = rs.match_close(toks, 0)
    body = src_text[m.end() - 1:][toks[0].end:toks[close].start]
    btoks, code = _code(body)
    # one rule: ( pattern ) => { transcriber } ;
    if not code or btoks[code[0]].s not in "([{":
        raise MacroError("macro %s: rule does not start with a delimiter" % name)
    pc = rs.match_close(btoks, code[0])
    pattern = body[btoks[code[0]].end:btoks[pc].start]
    rest = [i for i in code if i > pc]
    if len(rest) < 3 or btoks[rest[0]].s != "=" or btoks[rest[1]].s != ">":
        # `=>` may be lexed as one token
        if not (rest and btoks[rest[0]].s == "=>"):
            raise MacroError("macro %s: expected `=>` after the pattern" % name)
        t0 = rest[1]
    else:
        t0 = rest[2]
    tc = rs.match_close(btoks, t0)
    transcriber = body[btoks[t0].end:btoks[tc].start]
    after = [i for i in code if i > tc and btoks[i].s != ";"]
    if after:
        raise MacroError("macro %s has more than one rule (unsupported)" % name)
    if "$(" in pattern or "$(" in transcriber:
        raise MacroError("macro %s uses repetitions (unsupported)" % name)
    return pattern, transcriber


def _pattern_items(pattern):
    """-> list of ('lit', text) | ('cap', name, frag)"""
    toks, code = _code(pattern)
    items = []
    k = 0
    while k < len(code):
        t = toks[code[k]]
        if t.s == "$":
            name = toks[code[k + 1]].s
            if toks[code[k + 2]].s != ":":
                raise MacroError("malformed capture $%s" % name)
            frag = toks[code[k + 3]].s
            if frag not in ("expr", "ident", "ty", "block", "tt", "literal"):
                raise MacroError("capture fragment :%s unsupported" % frag)
            items.append(("cap", name, frag))
            k += 4
        else:
            items.append(("lit", t.s))
            k += 1
    return items


def _match(items, args):
    toks, code = _code(args)
    caps = {}
    pos = 0

    def lit_at(p, s):
        return p < len(code) and toks[code[p]].s == s

    for n, it in enumerate(items):
        if it[0] == "lit":
            if not lit_at(pos, it[1]):
                # a trailing comma of the pattern may be absent in the invocation (and vice versa is an error)
                if it[1] == "," and n == len(items) - 1 and pos == len(code):
                    continue
                raise MacroError("invocation does not match the macro pattern at `%s`" % it[1])
            if toks[code[pos]].s in rs.OPEN:
                # a literal opening delimiter: the pattern continues inside; nothing to skip
                pass
            pos += 1
        else:
            _, name, frag = it
            if frag in ("ident", "tt", "literal"):
                if pos >= len(code):
                    raise MacroError("missing $%s" % name)
                t = toks[code[pos]]
                if t.s in rs.OPEN and frag == "tt":
                    e = rs.match_close(toks, code[pos])
                    caps[name] = args[t.start:toks[e].end]
                    while pos < len(code) and code[pos] <= e:
                        pos += 1
                else:
                    caps[name] = t.s
                    pos += 1
            else:
                # expr / ty / block: up to the next literal of the pattern at depth 0 (or the end)
                nxt = None
                for j in range(n + 1, len(items)):
                    if items[j][0] == "lit":
                        nxt = items[j][1]
                        break
                start = pos
                while pos < len(code):
                    t = toks[code[pos]]
                    if nxt is not None and t.s == nxt:
                        break
                    if t.s in rs.OPEN:
                        e = rs.match_close(toks, code[pos])
                        while pos < len(code) and code[pos] <= e:
                            pos += 1
                        continue
                    pos += 1
                if pos == start:
                    raise MacroError("empty $%s" % name)
                caps[name] = args[toks[code[start]].start:toks[code[pos - 1]].end]
    if pos != len(code):
        raise MacroError("trailing tokens in macro invocation")
    return caps


def expand(text, name, pattern, transcriber):
    """Expand every invocation of `name!` in text.  Returns (text, count)."""
    items = _pattern_items(pattern)
    count = 0
    while True:
        m = re.search(r"(?:\b[\w]+::)*\b%s!\s*([\(\{\[])" % re.escape(name), text)
        if not m:
            return text, count
        sub = text[m.end() - 1:]
        toks = rs.lex(sub)
        close = rs.match_close(toks, 0)
        args = sub[toks[0].end:toks[close].start]
        caps = _match(items, args)

        def repl(mm):
            if mm.group(1) not in caps:
                raise MacroError("transcriber uses unknown $%s" % mm.group(1))
            return caps[mm.group(1)]
        out = re.sub(r"\$(\w+)", repl, transcriber)
        # a macro expansion is an expression: keep it delimited
        text = text[:m.start()] + "{" + out + "}" + sub[toks[close].end:]
        count += 1
