"""Run one Verus unit against /repo's working tree and classify the outcome."""
import json
import os
import re
import subprocess
import time
import hashlib

from . import extract

VERIF = os.path.dirname(os.path.dirname(os.path.abspath(__file__)))
BUILD = os.path.join(VERIF, "build")

DEFINITIVE = (
    "postcondition not satisfied",
    "precondition not satisfied",
    "assertion failed",
    "possible arithmetic underflow/overflow",
    "possible division by zero",
    "possible bit shift underflow/overflow",
    "invariant not satisfied",
    "loop invariant not preserved",
    "decreases not satisfied",
    "could not prove termination",
    "recommendation not met",
    "index out of bounds",
    "unreachable",
    "panic",
)


class FnResult:
    def __init__(self, name):
        self.name = name
        self.ok = True
        self.errors = []      # [(kind, line, message_excerpt)]
        self.time_ms = 0
        self.rlimit_hit = False
        self.src = None       # (rel, line)
        self.mode = ""        # exec | proof | spec (from Verus' function breakdown)


class UnitResult:
    def __init__(self, unit):
        self.unit = unit
        self.status = "ok"     # ok | failed | undecided
        self.reason = ""
        self.fn = {}           # name -> FnResult
        self.verified = 0
        self.errors = 0
        self.wall_s = 0.0
        self.smt_ms = 0
        self.emitted_path = None
        self.raw_stderr = ""
        self.em = None
        self.lost_anchors = []
        self.cmd = ""


def _parse_errors(stderr, path):
    """Yield (message, [lines in our file]) per rustc-style diagnostic."""
    blocks = re.split(r"(?m)^(?=error(?:\[E\d+\])?:)", stderr)
    base = os.path.basename(path)
    for b in blocks:
        m = re.match(r"error(?:\[E\d+\])?: (.*)", b)
        if not m:
            continue
        msg = m.group(1).strip()
        if msg.startswith("aborting due to"):
            continue
        lines = [int(x) for x in re.findall(r"--> " + re.escape(base) + r":(\d+):\d+", b)]
        # secondary labels: " 123 |  ... " gutter lines
        gutter = [int(x) for x in re.findall(r"(?m)^\s*(\d+) \|", b)]
        yield msg, lines, gutter, b


def run_unit(unit_path, repo_root="/repo", rlimit=None, extra_args=(), tag="", source_map=None, probe=None):
    """Run once; if the only failures are resource-limit hits, retry once with a 4x rlimit and a
    different solver seed (a brittle proof script is not a violation: DESIGN.md 2.5)."""
    res = _run_unit_once(unit_path, repo_root, rlimit, extra_args, tag, source_map, probe)
    if probe:
        return res
    if res.status == "undecided" and res.reason == "rlimit":
        base = rlimit or res.unit.rlimit or 10
        res2 = _run_unit_once(unit_path, repo_root, base * 4, tuple(extra_args) + ("--smt-option", "smt.random_seed=7"), tag, source_map)
        res2.wall_s += res.wall_s
        res2.retried = True
        return res2
    return res


def _run_unit_once(unit_path, repo_root="/repo", rlimit=None, extra_args=(), tag="", source_map=None, probe=None):
    t0 = time.time()
    unit = extract.Unit(unit_path)
    res = UnitResult(unit)
    try:
        em = extract.build(unit, repo_root, source_map, probe)
    except extract.ExtractError as e:
        res.status = "undecided"
        res.reason = "%s: %s" % (e.reason, e.detail)
        res.wall_s = time.time() - t0
        return res
    except Exception as e:  # tokenizer failure on edited source etc.
        res.status = "undecided"
        res.reason = "extractor-error: %r" % (e,)
        res.wall_s = time.time() - t0
        return res
    res.em = em
    res.lost_anchors = list(em.lost_anchors)
    os.makedirs(BUILD, exist_ok=True)
    path = os.path.join(BUILD, "%s%s.rs" % (unit.name, tag))
    with open(path, "w") as f:
        f.write(em.text)
    res.emitted_path = path
    for name, a, b, rel, sl in em.fn_lines:
        fr = FnResult(name)
        fr.src = (rel, sl)
        res.fn[name] = fr
    rl = rlimit or unit.rlimit
    cmd = ["verus", os.path.basename(path), "--output-json", "--time", "--multiple-errors", "12"]
    if rl:
        cmd += ["--rlimit", str(rl)]
    cmd += list(extra_args)
    res.cmd = " ".join(cmd)
    env = dict(os.environ)
    p = subprocess.run(cmd, cwd=BUILD, stdout=subprocess.PIPE, stderr=subprocess.PIPE, text=True, env=env)
    res.raw_stderr = p.stderr
    try:
        j = json.loads(p.stdout)
    except Exception:
        j = None
    if j is None or "verification-results" not in j:
        res.status = "undecided"
        res.reason = "tool-error: verus produced no result (exit %d)" % p.returncode
        res.wall_s = time.time() - t0
        return res
    vr = j["verification-results"]
    res.verified = vr.get("verified", 0)
    res.errors = vr.get("errors", 0)
    try:
        for mod in j["times-ms"]["smt"]["smt-run-module-times"]:
            for fb in mod.get("function-breakdown", []):
                nm = fb["function"].split("::", 1)[-1]
                res.smt_ms += fb.get("time", 0)
                fr = res.fn.setdefault(nm, FnResult(nm))
                fr.time_ms += fb.get("time", 0)
                fr.mode = fb.get("mode:", fb.get("mode", "")) or fr.mode
    except Exception:
        pass
    if vr.get("encountered-vir-error") or (vr.get("encountered-error") and res.errors == 0 and res.verified == 0):
        # front-end rejection: the (possibly edited) source left the supported subset
        msgs = [m for m, _, _, _ in _parse_errors(p.stderr, path)]
        res.status = "undecided"
        res.reason = "unsupported-construct: " + "; ".join(msgs[:3])
        res.wall_s = time.time() - t0
        return res
    rustc_errs = re.findall(r"^error\[E\d+\]: .*$", p.stderr, re.M)
    if rustc_errs:
        # a rustc (type/borrow/const) error in the emitted file: the extracted text no longer fits the unit's
        # opaque views or the supported subset -- nothing was decided about the property
        res.status = "undecided"
        res.reason = "unsupported-construct: rustc " + "; ".join(rustc_errs[:3])
        res.wall_s = time.time() - t0
        return res
    any_def = False
    any_rlimit = False
    for msg, lines, gutter, block in _parse_errors(p.stderr, path):
        # attribute to the function whose emitted range contains any referenced line
        owner = None
        for ln in lines + gutter:
            o = extract.fn_at_line(em, ln)
            if o:
                owner = o[0]
                break
        if owner is None:
            # lemma / prelude / postlude item: name from the block text, else the enclosing `fn` in the emitted file
            mm = re.search(r"(?:proof |spec )?fn (\w+)", block)
            nm = mm.group(1) if mm else None
            if nm is None and lines:
                src_lines = em.text.split("\n")
                k = min(lines[0], len(src_lines)) - 1
                while k >= 0:
                    m2 = re.match(r"\s*(?:pub\s+)?(?:(?:proof|exec|spec|open spec|closed spec|broadcast proof)\s+)*fn\s+(\w+)", src_lines[k])
                    if m2:
                        nm = m2.group(1)
                        break
                    k -= 1
            owner = "<lemma>::" + (nm or "?")
        fr = res.fn.setdefault(owner, FnResult(owner))
        fr.ok = False
        kind = msg
        if "rlimit" in msg.lower() or "resource limit" in msg.lower() or "timed out" in msg.lower():
            fr.rlimit_hit = True
            any_rlimit = True
            kind = "rlimit"
        else:
            any_def = True
        fr.errors.append((kind, lines[0] if lines else 0, block.strip()[:1500]))
    if res.errors == 0 and not any_def and not any_rlimit and vr.get("success"):
        res.status = "ok"
    elif any_def:
        res.status = "failed"
    elif any_rlimit:
        res.status = "undecided"
        res.reason = "rlimit"
    else:
        res.status = "undecided"
        res.reason = "tool-error: verus reported errors=%d without a parsable diagnostic" % res.errors
    res.wall_s = time.time() - t0
    return res
