"""Minimal Rust lexing utilities used by the mechanical extractor.

Nothing here understands Rust's grammar beyond: comments, string / char
literals, lifetimes, attributes and balanced delimiters.  That is all the
extractor needs in order to cut items out of a source file by brace matching
and to apply token-level rewrites without touching string contents.
"""
import re

IDENT_START = set("abcdefghijklmnopqrstuvwxyzABCDEFGHIJKLMNOPQRSTUVWXYZ_")
IDENT_CONT = IDENT_START | set("0123456789")


class Tok:
    __slots__ = ("kind", "s", "start", "end")

    def __init__(self, kind, s, start, end):
        self.kind = kind  # 'ident' 'num' 'str' 'char' 'lifetime' 'punct' 'comment' 'ws'
        self.s = s
        self.start = start
        self.end = end

    def __repr__(self):
        return "Tok(%s,%r,%d)" % (self.kind, self.s, self.start)


def lex(text):
    """Lex `text` into a list of Tok (including whitespace and comments)."""
    toks = []
    i = 0
    n = len(text)
    while i < n:
        c = text[i]
        if c in " \t\r\n":
            j = i + 1
            while j < n and text[j] in " \t\r\n":
                j += 1
            toks.append(Tok("ws", text[i:j], i, j))
            i = j
        elif text.startswith("//", i):
            j = text.find("\n", i)
            if j < 0:
                j = n
            toks.append(Tok("comment", text[i:j], i, j))
            i = j
        elif text.startswith("/*", i):
            depth = 1
            j = i + 2
            while j < n and depth > 0:
                if text.startswith("/*", j):
                    depth += 1
                    j += 2
                elif text.startswith("*/", j):
                    depth -= 1
                    j += 2
                else:
                    j += 1
            toks.append(Tok("comment", text[i:j], i, j))
            i = j
        elif c == '"' or (c == "b" and text.startswith('b"', i)):
            j = i + (2 if c == "b" else 1)
            while j < n and text[j] != '"':
                if text[j] == "\\":
                    j += 2
                else:
                    j += 1
            j += 1
            toks.append(Tok("str", text[i:j], i, j))
            i = j
        elif c == "r" and re.match(r'r#*"', text[i:i + 8] or ""):
            m = re.match(r'r(#*)"', text[i:])
            hashes = m.group(1)
            close = '"' + hashes
            j = text.find(close, i + len(m.group(0)))
            j = n if j < 0 else j + len(close)
            toks.append(Tok("str", text[i:j], i, j))
            i = j
        elif c == "b" and text.startswith("b'", i):
            j = i + 2
            while j < n and text[j] != "'":
                if text[j] == "\\":
                    j += 2
                else:
                    j += 1
            j += 1
            toks.append(Tok("char", text[i:j], i, j))
            i = j
        elif c == "'":
            # char literal or lifetime
            m = re.match(r"'(\\.[^']*|[^'\\])'", text[i:i + 12])
            if m:
                j = i + len(m.group(0))
                toks.append(Tok("char", text[i:j], i, j))
                i = j
            else:
                j = i + 1
                while j < n and text[j] in IDENT_CONT:
                    j += 1
                toks.append(Tok("lifetime", text[i:j], i, j))
                i = j
        elif c in IDENT_START:
            j = i + 1
            while j < n and text[j] in IDENT_CONT:
                j += 1
            toks.append(Tok("ident", text[i:j], i, j))
            i = j
        elif c.isdigit():
            j = i + 1
            while j < n and (text[j] in IDENT_CONT or (text[j] == "." and j + 1 < n and text[j + 1].isdigit())):
                j += 1
            toks.append(Tok("num", text[i:j], i, j))
            i = j
        else:
            toks.append(Tok("punct", c, i, i + 1))
            i += 1
    return toks


def code_tokens(toks):
    """Indices of tokens that are neither whitespace nor comments."""
    return [k for k, t in enumerate(toks) if t.kind not in ("ws", "comment")]


OPEN = {"(": ")", "[": "]", "{": "}"}
CLOSE = {")", "]", "}"}


def match_close(toks, k):
    """Given index k of an opening delimiter token, return index of its match."""
    assert toks[k].kind == "punct" and toks[k].s in OPEN, toks[k]
    depth = 0
    i = k
    while i < len(toks):
        t = toks[i]
        if t.kind == "punct":
            if t.s in OPEN:
                depth += 1
            elif t.s in CLOSE:
                depth -= 1
                if depth == 0:
                    return i
        i += 1
    raise ValueError("unbalanced delimiter at offset %d" % toks[k].start)


def strip_comments(text):
    """Remove all comments (doc comments included); strings untouched."""
    out = []
    for t in lex(text):
        if t.kind == "comment":
            # keep line structure roughly: a block comment may span lines
            out.append("\n" * t.s.count("\n"))
        else:
            out.append(t.s)
    return "".join(out)


def strip_attrs(text, keep=lambda a: False):
    """Remove `#[...]` / `#![...]` attributes unless keep(attr_text)."""
    toks = lex(text)
    out = []
    i = 0
    while i < len(toks):
        t = toks[i]
        if t.kind == "punct" and t.s == "#":
            j = i + 1
            if j < len(toks) and toks[j].kind == "punct" and toks[j].s == "!":
                j += 1
            if j < len(toks) and toks[j].kind == "punct" and toks[j].s == "[":
                e = match_close(toks, j)
                attr = text[t.start:toks[e].end]
                if keep(attr):
                    out.append(attr)
                i = e + 1
                continue
        out.append(t.s)
        i += 1
    return "".join(out)


class Item:
    """A top-level or impl-level item located in a token stream."""

    def __init__(self, kind, name, tstart, tend, toks, extra=None):
        self.kind = kind      # fn / impl / struct / enum / const / static / mod / use / trait / type / macro
        self.name = name
        self.tstart = tstart  # token index of first token (attributes included)
        self.tend = tend      # token index one past the last token
        self.toks = toks
        self.extra = extra or {}

    @property
    def start(self):
        return self.toks[self.tstart].start

    @property
    def end(self):
        return self.toks[self.tend - 1].end


ITEM_KW = {"fn", "impl", "struct", "enum", "const", "static", "mod", "use", "trait", "type", "macro_rules", "union", "extern"}
QUALIFIERS = {"pub", "const", "unsafe", "async", "default", "extern"}


def scan_items(toks, lo, hi):
    """Scan items among toks[lo:hi] (one nesting level).  Returns [Item]."""
    items = []
    i = lo
    while i < hi:
        t = toks[i]
        if t.kind in ("ws", "comment"):
            i += 1
            continue
        start = i
        attrs = []
        # attributes
        while i < hi and toks[i].kind == "punct" and toks[i].s == "#":
            j = i + 1
            while toks[j].kind in ("ws",):
                j += 1
            if toks[j].s == "!":
                j += 1
            if toks[j].s != "[":
                break
            e = match_close(toks, j)
            attrs.append("".join(x.s for x in toks[i:e + 1]))
            i = e + 1
            while i < hi and toks[i].kind in ("ws", "comment"):
                i += 1
        if i >= hi:
            break
        # qualifiers
        j = i
        kw = None
        while j < hi:
            tj = toks[j]
            if tj.kind in ("ws", "comment"):
                j += 1
                continue
            if tj.kind == "ident" and tj.s == "pub":
                j += 1
                # pub(crate)
                k = j
                while k < hi and toks[k].kind == "ws":
                    k += 1
                if k < hi and toks[k].s == "(":
                    j = match_close(toks, k) + 1
                continue
            if tj.kind == "ident" and tj.s in ("unsafe", "async", "default"):
                j += 1
                continue
            if tj.kind == "ident" and tj.s == "extern":
                # extern "C" fn / extern crate
                j += 1
                k = j
                while k < hi and toks[k].kind == "ws":
                    k += 1
                if k < hi and toks[k].kind == "str":
                    j = k + 1
                continue
            if tj.kind == "ident" and tj.s == "const":
                # `const fn` vs `const NAME`
                k = j + 1
                while k < hi and toks[k].kind in ("ws", "comment"):
                    k += 1
                if toks[k].kind == "ident" and toks[k].s in ("fn", "unsafe", "async", "extern"):
                    j = k
                    continue
                kw = "const"
                break
            if tj.kind == "ident" and tj.s in ITEM_KW:
                kw = tj.s
                break
            break
        if kw is None:
            # not an item we understand (e.g. macro invocation `foo! { .. }` or stray tokens): skip to ';' or matching brace
            k = i
            while k < hi:
                if toks[k].kind == "punct" and toks[k].s in OPEN:
                    k = match_close(toks, k)
                    if toks[k].s == "}":
                        k += 1
                        break
                elif toks[k].kind == "punct" and toks[k].s == ";":
                    k += 1
                    break
                k += 1
            items.append(Item("other", None, start, k, toks, {"attrs": attrs}))
            i = k
            continue
        kwi = j
        # name
        k = kwi + 1
        while toks[k].kind in ("ws", "comment"):
            k += 1
        name = None
        extra = {"attrs": attrs, "kw": kwi}
        if kw == "impl":
            # find the body brace; header is everything between
            b = k
            while not (toks[b].kind == "punct" and toks[b].s == "{"):
                if toks[b].kind == "punct" and toks[b].s in ("(", "["):
                    b = match_close(toks, b)
                b += 1
            header = "".join(x.s for x in toks[kwi + 1:b]).strip()
            header = re.sub(r"\s+", " ", header)
            name = header
            e = match_close(toks, b)
            extra.update(body_open=b, body_close=e)
            items.append(Item("impl", name, start, e + 1, toks, extra))
            i = e + 1
            continue
        if kw == "macro_rules":
            # macro_rules! name { ... }
            while toks[k].s == "!" or toks[k].kind in ("ws",):
                k += 1
            name = toks[k].s
            b = k + 1
            while not (toks[b].kind == "punct" and toks[b].s in OPEN):
                b += 1
            e = match_close(toks, b)
            e2 = e + 1
            # optional trailing ;
            kk = e2
            while kk < hi and toks[kk].kind == "ws":
                kk += 1
            if kk < hi and toks[kk].s == ";":
                e2 = kk + 1
            items.append(Item("macro", name, start, e2, toks, extra))
            i = e2
            continue
        if toks[k].kind == "ident":
            name = toks[k].s
        # end of item: first `;` or `{...}` at depth 0 (after skipping (...) [...] <...> is not needed)
        b = k
        end = None
        while b < hi:
            tb = toks[b]
            if tb.kind == "punct" and tb.s in ("(", "["):
                b = match_close(toks, b) + 1
                continue
            if tb.kind == "punct" and tb.s == "{":
                e = match_close(toks, b)
                extra.update(body_open=b, body_close=e)
                end = e + 1
                if kw in ("const", "static", "use", "type"):
                    # `const X: T = T { .. };` — continue to the `;`
                    b = e + 1
                    continue
                break
            if tb.kind == "punct" and tb.s == ";":
                end = b + 1
                break
            b += 1
        if end is None:
            end = hi
        if kw in ("const", "static", "use", "type") and "body_open" in extra:
            del extra["body_open"], extra["body_close"]
        # struct Foo { .. } may not be followed by ';' ; tuple struct `struct Foo(..);` handled by ';'
        items.append(Item(kw, name, start, end, toks, extra))
        i = end
    return items


def impl_self_type(header):
    """`impl<T> Trait for Foo<T>` -> ('Trait', 'Foo'); `impl Foo` -> (None,'Foo')."""
    h = header
    # drop leading generics
    if h.startswith("<"):
        depth = 0
        for idx, ch in enumerate(h):
            if ch == "<":
                depth += 1
            elif ch == ">":
                depth -= 1
                if depth == 0:
                    h = h[idx + 1:].strip()
                    break
    h = h.split(" where ")[0].strip()
    trait = None
    m = re.match(r"(.*?)\bfor\b(.*)", h)
    if m and not m.group(1).strip().endswith("<"):
        trait = m.group(1).strip()
        h = m.group(2).strip()
    base = re.match(r"[&\s]*(?:mut\s+)?(?:'[a-z_]+\s+)?([A-Za-z_][A-Za-z0-9_:]*)", h)
    return trait, (base.group(1) if base else h)
