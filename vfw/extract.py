"""Mechanical extraction of real jiff source into a single-file Verus program.

Input : a unit description (`contracts/verus/<unit>.vrs`) and /repo's current
        working tree.
Output: one Verus file whose function bodies are the text of /repo, cut by
        brace matching and passed through the fixed rewrite list R1..R12 of
        DESIGN.md section 2.2, with contracts and proof hints spliced in.

The extractor never invents code: everything between a function's `{` and `}`
comes from /repo, except (a) the listed token rewrites and (b) `proof { .. }`
blocks / loop invariants inserted at anchors named in the unit file.
"""
import os
import re
import sys
from . import rs


class ExtractError(Exception):
    """Raised when the source no longer has the shape the unit expects.
    The driver maps this to exit 2 (undecided), never to a violation."""

    def __init__(self, reason, detail):
        Exception.__init__(self, "%s: %s" % (reason, detail))
        self.reason = reason
        self.detail = detail


# --------------------------------------------------------------------------
# unit file parsing
# --------------------------------------------------------------------------

class FnSpec:
    def __init__(self, name):
        self.name = name          # e.g. IDate::to_epoch_day, days_in_month, RoundMode::round::inner
        self.ret = None           # name for the return value
        self.requires = []
        self.ensures = []
        self.decreases = None
        self.hints = []           # [(anchor, text)]
        self.attrs = []           # e.g. #[verifier::rlimit(50)]
        self.external_body = False
        self.sigsub = []          # [(regex, repl)] applied to the signature only
        self.bodysub = []         # [(regex, repl)] applied to the body only (documented per unit)
        self.opens = False
        self.props = []           # properties this function's contract serves (empty = all of the unit's)
        self.inherent = False     # emit a trait-impl method as an inherent method (Verus forbids `requires` on Drop::drop)
        self.lift_nested = False  # R13: nested `fn` items are removed from the body (they are extracted as top-level items)


class Unit:
    def __init__(self, path):
        self.path = path
        self.name = os.path.basename(path).rsplit(".", 1)[0]
        self.properties = []
        self.sources = []         # [(relpath, mode, [itemspecs], [dropspecs])]
        self.prelude = []
        self.postlude = []
        self.fns = {}             # name -> FnSpec
        self.rewrites = []        # [(regex, repl, note)]
        self.expands = []         # [(macro name, rel path of its macro_rules! definition)]  (R14)
        self.includes = []
        self.canaries = []        # [(name, file, regex, repl, expect-fn)]
        self.rlimit = None
        self.replay = None
        self._defprops = []
        self._parse()

    def _parse(self):
        cur = None          # ('prelude'|'postlude'|'requires'|'ensures'|'hint'...)
        curfn = None
        cursrc = None
        buf = None
        base = os.path.dirname(self.path)

        def flush():
            nonlocal buf, cur
            if cur is None:
                return
            text = "\n".join(buf).rstrip()
            kind = cur[0]
            if kind == "prelude":
                self.prelude.append(text)
            elif kind == "postlude":
                self.postlude.append(text)
            elif kind == "requires":
                curfn.requires.append(text)
            elif kind == "ensures":
                curfn.ensures.append(text)
            elif kind == "decreases":
                curfn.decreases = text
            elif kind == "hint":
                curfn.hints.append((cur[1], text))
            elif kind == "items":
                cursrc[2].extend(l.strip() for l in buf if l.strip())
            elif kind == "drop":
                cursrc[3].extend(l.strip() for l in buf if l.strip())
            cur = None
            buf = None

        for raw in open(self.path).read().split("\n"):
            line = raw.rstrip("\n")
            m = re.match(r"\s*//@(\S+)\s*(.*)$", line)
            if not m:
                if cur is not None:
                    buf.append(line)
                continue
            d, arg = m.group(1), m.group(2).strip()
            flush()
            if d == "unit":
                self.name = arg
            elif d == "property":
                self.properties = arg.split()
            elif d == "expand":
                mm = re.match(r"(\w+)\s+from\s+(\S+)", arg)
                self.expands.append((mm.group(1), mm.group(2)))
            elif d == "import":
                # merge every directive of another unit (its sources, rewrites, prelude, contracts)
                other = Unit(os.path.join(base, arg))
                self.sources += other.sources
                self.prelude += other.prelude
                self.postlude += other.postlude
                self.rewrites += other.rewrites
                self.expands += other.expands
                self.includes += other.includes + [arg]
                for k, v in other.fns.items():
                    self.fns.setdefault(k, v)
            elif d == "include":
                inc = open(os.path.join(base, arg)).read()
                self.prelude.append("// ---- include %s ----\n%s" % (arg, inc))
                self.includes.append(arg)
            elif d == "source":
                parts = arg.split()
                cursrc = [parts[0], parts[1] if len(parts) > 1 else "items", [], []]
                self.sources.append(cursrc)
            elif d == "items":
                cur, buf = ("items",), []
                if arg:
                    buf.append(arg)
            elif d == "drop":
                cur, buf = ("drop",), []
                if arg:
                    buf.append(arg)
            elif d == "rewrite":
                # //@rewrite /regex/ => replacement  ## note
                mm = re.match(r"/(.*)/\s*=>\s*(.*?)(?:\s*##\s*(.*))?$", arg)
                if not mm:
                    raise ValueError("bad rewrite: " + arg)
                self.rewrites.append((mm.group(1), mm.group(2), mm.group(3) or ""))
            elif d == "rlimit":
                self.rlimit = float(arg)
            elif d == "replay":
                self.replay = arg
            elif d == "prelude":
                cur, buf = ("prelude",), []
            elif d == "postlude":
                cur, buf = ("postlude",), []
            elif d == "end":
                pass
            elif d == "fn":
                mm = re.match(r"(<\w+ as [\w<>, ()]+?>::\w+|\S+)(?:\s*->\s*(\w+))?\s*$", arg)
                curfn = FnSpec(mm.group(1))
                curfn.ret = mm.group(2)
                curfn.props = list(self._defprops)
                self.fns[curfn.name] = curfn
            elif d == "endfn":
                curfn = None
            elif d == "requires":
                cur, buf = ("requires",), [arg] if arg else []
            elif d == "ensures":
                cur, buf = ("ensures",), [arg] if arg else []
            elif d == "decreases":
                cur, buf = ("decreases",), [arg] if arg else []
            elif d == "hint":
                cur, buf = ("hint", arg), []
            elif d == "prop":
                if curfn is None:
                    self._defprops = arg.split()
                else:
                    curfn.props = arg.split()
            elif d == "attr":
                curfn.attrs.append(arg)
            elif d == "external_body":
                curfn.external_body = True
            elif d == "lift-nested":
                curfn.lift_nested = True
            elif d == "inherent":
                curfn.inherent = True
            elif d == "sigsub" or d == "bodysub":
                mm = re.match(r"/(.*)/\s*=>\s*(.*)$", arg)
                (curfn.sigsub if d == "sigsub" else curfn.bodysub).append((mm.group(1), mm.group(2)))
            elif d == "canary":
                # //@canary name | relfile | /regex/ => repl | expected failing fn
                parts = [p.strip() for p in arg.split("|")]
                mm = re.match(r"/(.*)/\s*=>\s*(.*)$", parts[2])
                self.canaries.append((parts[0], parts[1], mm.group(1), mm.group(2), parts[3] if len(parts) > 3 else ""))
            else:
                raise ValueError("unknown directive //@%s in %s" % (d, self.path))
        flush()


# --------------------------------------------------------------------------
# generic rewrites (DESIGN.md 2.2, R1..R12)
# --------------------------------------------------------------------------

def _keep_attr(a):
    return a.startswith("#[derive(") or a.startswith("#[verifier::")


def r_derive(text):
    """R1/R10: keep only derives Verus understands structurally; PartialOrd/Ord are
    re-generated explicitly by gen_ord()."""
    def fix(m):
        names = [x.strip() for x in m.group(1).split(",") if x.strip()]
        keep = [x for x in names if x in ("Clone", "Copy", "PartialEq", "Eq", "Debug")]
        # Verus: structural equality needs the Structural marker
        if "PartialEq" in keep and "Eq" in keep:
            keep.append("Structural")
        return "#[derive(%s)]" % ", ".join(keep) if keep else ""
    return re.sub(r"#\[derive\(([^)]*)\)\]", fix, text)


def r_vis(text):
    return re.sub(r"\bpub\s*\(\s*(?:crate|super|self|in\s+[\w:]+)\s*\)", "pub", text)


def _macro_calls(toks, name):
    """Yield (i_ident, i_open, i_close) for `name!(...)` / `name![..]` / `name!{..}`."""
    i = 0
    n = len(toks)
    while i < n:
        t = toks[i]
        if t.kind == "ident" and t.s == name:
            j = i + 1
            while j < n and toks[j].kind == "ws":
                j += 1
            if j < n and toks[j].kind == "punct" and toks[j].s == "!":
                k = j + 1
                while k < n and toks[k].kind == "ws":
                    k += 1
                if k < n and toks[k].kind == "punct" and toks[k].s in rs.OPEN:
                    e = rs.match_close(toks, k)
                    yield (i, k, e)
                    i = e + 1
                    continue
        i += 1


def _replace_spans(text, spans):
    """spans: [(start, end, replacement)] non-overlapping."""
    out = []
    pos = 0
    for s, e, r in sorted(spans):
        out.append(text[pos:s])
        out.append(r)
        pos = e
    out.append(text[pos:])
    return "".join(out)


def _split_top_commas(toks, lo, hi):
    """Split toks[lo:hi] at top-level commas; returns list of (a,b) token ranges."""
    parts = []
    depth = 0
    a = lo
    i = lo
    while i < hi:
        t = toks[i]
        if t.kind == "punct":
            if t.s in rs.OPEN:
                i = rs.match_close(toks, i)
            elif t.s == "," and depth == 0:
                parts.append((a, i))
                a = i + 1
        i += 1
    if a < hi:
        parts.append((a, hi))
    return parts


def r_err(text):
    """R4: err!(..) -> verif_err()"""
    toks = rs.lex(text)
    spans = [(toks[i].start, toks[e].end, "verif_err()") for i, k, e in _macro_calls(toks, "err")]
    return _replace_spans(text, spans)


def r_debug_assert(text):
    """R5: debug_assert!(e[, msg..]) -> { let verif_da = e; assert(verif_da); }
           debug_assert_eq!(a, b[, ..]) -> { let verif_da = (a) == (b); assert(verif_da); }"""
    for name in ("debug_assert_eq", "debug_assert_ne", "debug_assert"):
        toks = rs.lex(text)
        spans = []
        for i, k, e in _macro_calls(toks, name):
            parts = _split_top_commas(toks, k + 1, e)
            s = lambda p: "".join(x.s for x in toks[p[0]:p[1]]).strip()
            if name == "debug_assert":
                expr = s(parts[0])
            elif name == "debug_assert_eq":
                expr = "(%s) == (%s)" % (s(parts[0]), s(parts[1]))
            else:
                expr = "(%s) != (%s)" % (s(parts[0]), s(parts[1]))
            end = toks[e].end
            # swallow a trailing `;`
            spans.append((toks[i].start, end, "{ let verif_da: bool = %s; assert(verif_da); }" % expr))
        text = _replace_spans(text, spans)
    return text


def r_local_const(text):
    """R3: function-local `const X: T = e;` -> `let X: T = e;` (text is one fn)."""
    toks = rs.lex(text)
    code = rs.code_tokens(toks)
    # find body open brace: first '{' at paren depth 0 after 'fn'
    spans = []
    depth = 0
    for idx, k in enumerate(code):
        t = toks[k]
        if t.kind == "punct" and t.s == "{":
            depth += 1
        elif t.kind == "punct" and t.s == "}":
            depth -= 1
        elif depth >= 1 and t.kind == "ident" and t.s == "const":
            nxt = toks[code[idx + 1]]
            nx2 = toks[code[idx + 2]] if idx + 2 < len(code) else None
            if nxt.kind == "ident" and nxt.s not in ("fn", "unsafe") and nx2 is not None and nx2.s == ":":
                spans.append((t.start, t.end, "let"))
    return _replace_spans(text, spans)


def r_compound(text):
    """R6: `x %= e;` / `x /= e;` -> `x = x % e;`"""
    return re.sub(r"(?m)^(\s*)([A-Za-z_][\w\.]*)\s*([%/])=\s*([^;]+);", r"\1\2 = \2 \3 (\4);", text)


def r_closure_underscore(text):
    """R7a: closure parameter `_` -> `_e`"""
    return re.sub(r"\|\s*_\s*\|", "|_e|", text)


def r_with_context(text):
    """R11: .with_context(|| ..) -> .verif_with_context()"""
    toks = rs.lex(text)
    spans = []
    i = 0
    while i < len(toks):
        t = toks[i]
        if t.kind == "ident" and t.s == "with_context":
            j = i + 1
            while toks[j].kind == "ws":
                j += 1
            if toks[j].s == "(":
                e = rs.match_close(toks, j)
                spans.append((t.start, toks[e].end, "verif_with_context()"))
                i = e
        i += 1
    return _replace_spans(text, spans)


def r_cfg_macro(text):
    """R9: cfg!(feature = "x-y") -> verif_cfg_x_y()"""
    toks = rs.lex(text)
    spans = []
    for i, k, e in _macro_calls(toks, "cfg"):
        inner = "".join(x.s for x in toks[k + 1:e])
        m = re.search(r'feature\s*=\s*"([^"]+)"', inner)
        if m:
            spans.append((toks[i].start, toks[e].end, "verif_cfg_%s()" % re.sub(r"\W", "_", m.group(1))))
    return _replace_spans(text, spans)


def r_pub_fields(text):
    """R2b: private struct fields -> pub (visibility has no run-time meaning; Verus refuses
    specs over private fields/consts)."""
    m = re.search(r"struct\s+\w+[^{;(]*\{", text)
    if not m:
        return text
    head, body = text[:m.end()], text[m.end():]
    body = re.sub(r"(?m)^(\s*)(?!pub\b)([A-Za-z_]\w*\s*:)", r"\1pub \2", body)
    return head + body


def r_pub_item(text):
    """R2c: private fn / const -> pub"""
    # skip leading attributes
    m = re.match(r"(\s*(?:#\[[^\]]*\]\s*)*)(.*)$", text, re.S)
    head, rest = m.group(1), m.group(2)
    if re.match(r"pub\b", rest):
        return text
    return head + "pub " + rest


def r_unreachable(text):
    """R4b: unreachable!("fmt {x}", ..) / panic!("..") -> same macro without arguments (message dropped)"""
    for name in ("unreachable", "panic"):
        toks = rs.lex(text)
        spans = [(toks[k].start, toks[e].end, "()") for i, k, e in _macro_calls(toks, name) if e > k + 1]
        text = _replace_spans(text, spans)
    return text


def generic_rewrites(text):
    text = rs.strip_comments(text)
    text = rs.strip_attrs(text, _keep_attr)
    text = r_derive(text)
    text = r_vis(text)
    text = r_err(text)
    text = r_unreachable(text)
    text = r_debug_assert(text)
    text = r_compound(text)
    text = r_closure_underscore(text)
    text = r_with_context(text)
    text = r_cfg_macro(text)
    return text


# --------------------------------------------------------------------------
# locating items
# --------------------------------------------------------------------------

class Source:
    def __init__(self, root, rel):
        self.rel = rel
        self.path = os.path.join(root, rel)
        if rel.startswith("@verif/"):
            # a file of the verification framework itself (e.g. the Kani reference functions), not of /repo
            self.path = os.path.join(os.path.dirname(os.path.dirname(os.path.abspath(__file__))), rel[len("@verif/"):])
        try:
            self.text = open(self.path).read()
        except OSError as e:
            raise ExtractError("lost-anchor", "cannot read %s: %s" % (rel, e))
        self.toks = rs.lex(self.text)
        self.items = rs.scan_items(self.toks, 0, len(self.toks))
        # items of inline (non-test) modules are reachable too (e.g. `mod repr { impl Repr {..} }`)
        work = list(self.items)
        while work:
            it = work.pop()
            if it.kind == "mod" and "body_open" in it.extra and not self.is_test_item(it):
                inner = rs.scan_items(self.toks, it.extra["body_open"] + 1, it.extra["body_close"])
                for x in inner:
                    x.extra["in_mod"] = it.name
                self.items += inner
                work += inner

    def line_of(self, offset):
        return self.text.count("\n", 0, offset) + 1

    def impl_items(self, impl):
        return rs.scan_items(self.toks, impl.extra["body_open"] + 1, impl.extra["body_close"])

    def is_test_item(self, it):
        return any(re.search(r"cfg\(\s*test\s*\)", a) for a in it.extra.get("attrs", []))

    def find_fn(self, qual):
        """qual: `free_fn`, `Type::method`, `Type::method::nested`, `Trait for Type::method`.
        Returns (item, impl_item_or_None)."""
        if qual.startswith("<"):
            # `<Type as Trait<..>>::method[::nested]`: split after the matching `>`
            depth = 0
            for i, ch in enumerate(qual):
                depth += (ch == "<") - (ch == ">")
                if depth == 0:
                    break
            parts = [qual[:i + 1]] + [x for x in qual[i + 1:].split("::") if x]
        else:
            parts = qual.split("::")
        cands = []
        if len(parts) == 1:
            for it in self.items:
                if it.kind == "fn" and it.name == parts[0] and not self.is_test_item(it):
                    cands.append((it, None))
        else:
            ty, meth = parts[0], parts[1]
            trait = None
            m = re.match(r"<(\w+) as ([\w<>, ()]+)>$", ty)
            if m:
                ty, trait = m.group(1), m.group(2)
            for imp in self.items:
                if imp.kind != "impl":
                    continue
                tr, st = rs.impl_self_type(imp.name)
                if st != ty:
                    continue
                if (trait or None) != (re.sub(r"\s", "", tr) if tr else None) and not (trait is None and tr is None):
                    if not (trait is not None and tr is not None and re.sub(r"\s", "", tr) == trait):
                        continue
                for it in self.impl_items(imp):
                    if it.kind == "fn" and it.name == meth and not self.is_test_item(it):
                        cands.append((it, imp))
            if len(parts) > 2 and cands:
                # nested fn inside method body
                outer, imp = cands[0]
                inner = rs.scan_items(self.toks, outer.extra["body_open"] + 1, outer.extra["body_close"])
                cands = [(it, imp) for it in inner if it.kind == "fn" and it.name == parts[2]]
        if not cands:
            raise ExtractError("lost-anchor", "function %s not found in %s" % (qual, self.rel))
        return cands[0]

    def find_item(self, spec):
        """spec: `struct X` `enum X` `const X` `impl X` `fn ...` `const X::Y` `type X` `static X`"""
        kind, name = spec.split(None, 1)
        if kind == "fn":
            return self.find_fn(name)[0]
        if "::" in name and kind == "const":
            ty, cn = name.split("::")
            for imp in self.items:
                if imp.kind == "impl" and rs.impl_self_type(imp.name) == (None, ty):
                    for it in self.impl_items(imp):
                        if it.kind == "const" and it.name == cn:
                            return it
            raise ExtractError("lost-anchor", "%s not found in %s" % (spec, self.rel))
        for it in self.items:
            if it.kind == kind and not self.is_test_item(it):
                if kind == "impl":
                    if rs.impl_self_type(it.name)[1] == name or it.name == name:
                        return it
                elif it.name == name:
                    return it
        raise ExtractError("lost-anchor", "%s not found in %s" % (spec, self.rel))

    def item_text(self, it, with_attrs=True):
        a = it.tstart
        return self.text[self.toks[a].start:self.toks[it.tend - 1].end]


# --------------------------------------------------------------------------
# splicing contracts into one function's text
# --------------------------------------------------------------------------

def _fn_parts(text):
    """Split one fn item text into (header_before_ret, ret_type or None, where_clause, body_inner).
    header includes everything up to and including the closing paren of params."""
    toks = rs.lex(text)
    code = rs.code_tokens(toks)
    # find 'fn'
    ki = None
    for idx, k in enumerate(code):
        if toks[k].kind == "ident" and toks[k].s == "fn":
            ki = idx
            break
    if ki is None:
        raise ExtractError("unsupported-construct", "no fn keyword")
    # params paren: first '(' after fn name/generics at angle depth 0
    idx = ki + 2
    angle = 0
    while True:
        t = toks[code[idx]]
        if t.s == "<":
            angle += 1
        elif t.s == ">":
            angle -= 1
        elif t.s == "(" and angle == 0:
            break
        idx += 1
    pclose = rs.match_close(toks, code[idx])
    # after params: optional `-> Type`, optional where, then `{`
    j = pclose + 1
    # find body '{' : first '{' at depth 0 outside <...>. Return types here never contain braces.
    b = j
    while not (toks[b].kind == "punct" and toks[b].s == "{"):
        if toks[b].kind == "punct" and toks[b].s in ("(", "["):
            b = rs.match_close(toks, b)
        b += 1
    bclose = rs.match_close(toks, b)
    between = text[toks[pclose].end:toks[b].start]
    header = text[:toks[pclose].end]
    ret = None
    where = ""
    m = re.match(r"\s*->\s*(.*?)(\bwhere\b.*)?$", between, re.S)
    if m:
        ret = m.group(1).strip()
        where = (m.group(2) or "").strip()
    else:
        mw = re.match(r"\s*(\bwhere\b.*)?$", between, re.S)
        where = (mw.group(1) or "").strip() if mw else ""
    body = text[toks[b].end:toks[bclose].start]
    return header, ret, where, body


def _apply_hints(body, hints, fname):
    """Insert hint text at anchors.  Anchors:
         entry                      at the start of the body
         after-let NAME[#k]         after the k-th (default 1st) `let [mut] NAME ...;` statement
         before-tail                before the trailing expression of the body
         before-return #k           before the k-th `return`
         loop #k                    text becomes the invariant/decreases clauses of the k-th while/loop
         after-stmt /regex/         after the first statement (at any depth) whose text matches
       Lost anchors are reported (not fatal): the function is verified without that hint."""
    lost = []
    inserts = []  # (offset, text)
    toks = rs.lex(body)
    code = rs.code_tokens(toks)

    def stmt_end_from(idx):
        """given index into code of a token inside a statement at some depth, find end offset of `;`"""
        i = idx
        while i < len(code):
            t = toks[code[i]]
            if t.kind == "punct" and t.s in rs.OPEN:
                e = rs.match_close(toks, code[i])
                # jump
                while code[i] < e:
                    i += 1
                continue
            if t.kind == "punct" and t.s == ";":
                return t.end
            i += 1
        return None

    for anchor, text in hints:
        a = anchor.split()
        if a[0] == "entry":
            inserts.append((0, "\n" + text + "\n"))
        elif a[0] == "after-let":
            name = a[1]
            k = 1
            if "#" in name:
                name, kk = name.split("#")
                k = int(kk)
            cnt = 0
            found = None
            for idx, ci in enumerate(code):
                t = toks[ci]
                if t.kind == "ident" and t.s == "let":
                    j = idx + 1
                    if toks[code[j]].s == "mut":
                        j += 1
                    if toks[code[j]].kind == "ident" and toks[code[j]].s == name:
                        cnt += 1
                        if cnt == k:
                            found = stmt_end_from(j)
                            break
            if found is None:
                lost.append(anchor)
            else:
                inserts.append((found, "\n" + text + "\n"))
        elif a[0] == "before-tail":
            # trailing expression: text after the last top-level `;` or `}` statement end.
            depth = 0
            last = 0
            i = 0
            while i < len(code):
                t = toks[code[i]]
                if t.kind == "punct" and t.s in rs.OPEN:
                    e = rs.match_close(toks, code[i])
                    is_brace = t.s == "{"
                    while i < len(code) and code[i] < e:
                        i += 1
                    # a block `{...}` at statement level followed by non-operator starts a new statement;
                    # we only treat `;` as a separator, plus `}` when followed by `let`/ident at line start.
                    if is_brace and i + 1 < len(code):
                        nt = toks[code[i + 1]]
                        if nt.kind == "ident" and nt.s != "else":
                            # statement-like block ended (if/match/while as statement)
                            # only when the block started a statement: heuristic — previous separator is at `last`
                            stmt_text = body[last:toks[e].end].lstrip()
                            if re.match(r"(if|match|while|for|loop|unsafe|\{)\b", stmt_text) or stmt_text.startswith("{"):
                                last = toks[e].end
                    i += 1
                    continue
                if t.kind == "punct" and t.s == ";":
                    last = t.end
                i += 1
            inserts.append((last, "\n" + text + "\n"))
        elif a[0] == "before-return":
            k = int(a[1].lstrip("#")) if len(a) > 1 else 1
            cnt = 0
            found = None
            for idx, ci in enumerate(code):
                t = toks[ci]
                if t.kind == "ident" and t.s == "return":
                    cnt += 1
                    if cnt == k:
                        found = t.start
                        break
            if found is None:
                lost.append(anchor)
            else:
                inserts.append((found, text + "\n"))
        elif a[0] == "loop":
            k = int(a[1].lstrip("#")) if len(a) > 1 else 1
            cnt = 0
            found = None
            for idx, ci in enumerate(code):
                t = toks[ci]
                if t.kind == "ident" and t.s in ("while", "loop", "for"):
                    cnt += 1
                    if cnt == k:
                        # find the body '{'
                        j = idx + 1
                        while not (toks[code[j]].kind == "punct" and toks[code[j]].s == "{"):
                            if toks[code[j]].kind == "punct" and toks[code[j]].s in ("(", "["):
                                e = rs.match_close(toks, code[j])
                                while code[j] < e:
                                    j += 1
                            j += 1
                        found = toks[code[j]].start
                        break
            if found is None:
                lost.append(anchor)
            else:
                inserts.append((found, "\n" + text + "\n"))
        elif a[0] == "after-stmt" or a[0] == "before-stmt":
            m = re.match(r"(?:after|before)-stmt\s+/(.*)/(?:\s*#(\d+))?$", anchor)
            rx = re.compile(m.group(1))
            k = int(m.group(2) or 1)
            mm = None
            for cnt, cand in enumerate(rx.finditer(body), 1):
                if cnt == k:
                    mm = cand
                    break
            if not mm:
                lost.append(anchor)
            elif a[0] == "before-stmt":
                inserts.append((mm.start(), text + "\n"))
            else:
                # find the token at mm.start(), then statement end
                idx = None
                for ii, ci in enumerate(code):
                    if toks[ci].start >= mm.start():
                        idx = ii
                        break
                end = stmt_end_from(idx) if idx is not None else None
                if end is None:
                    lost.append(anchor)
                else:
                    inserts.append((end, "\n" + text + "\n"))
        else:
            raise ValueError("unknown anchor %r for %s" % (anchor, fname))
    out = body
    for off, text in sorted(inserts, key=lambda x: -x[0]):
        out = out[:off] + text + out[off:]
    return out, lost


# vacuity-probe mode of the current build: None | "entry" | "tail" (thread-local, set by build(..., probe=))


def splice_fn(text, spec, unit_rewrites=()):
    """text: one fn item (already through generic rewrites)."""
    text = r_local_const(text)
    header, ret, where, body = _fn_parts(text)
    lost = []
    if spec is not None and spec.lift_nested:
        btoks = rs.lex(body)
        nested = [it for it in rs.scan_items(btoks, 0, len(btoks)) if it.kind == "fn"]
        for it in sorted(nested, key=lambda x: -x.tstart):
            body = body[:btoks[it.tstart].start] + body[btoks[it.tend - 1].end:]
        if not nested:
            lost.append("lift-nested: no nested fn found")
    if spec is not None:
        for rx, rp in spec.sigsub:
            header = re.sub(rx, rp, header)
            if ret is not None:
                ret = re.sub(rx, rp, ret)
        for rx, rp in spec.bodysub:
            body, n = re.subn(rx, rp, body)
            if n == 0:
                lost.append("bodysub /%s/" % rx)
        hints = list(spec.hints)
        PROBE = getattr(_TLS, "probe", None)
        if PROBE and (spec.requires or spec.ensures) and not spec.external_body:
            # vacuity probe (thorough tier): this `assert(false)` must FAIL; if it verifies, the contract's
            # preconditions (entry) or the callee contracts on the way to the end of the body (tail) are contradictory
            hints = [("entry" if PROBE == "entry" else "before-tail", "proof { assert(false); } // verif vacuity probe")] + hints
        body, l2 = _apply_hints(body, hints, spec.name)
        lost += l2
    out = []
    if spec is not None:
        attrs = list(spec.attrs)
        # every function under contract gets its own solver context: an edit elsewhere in the unit
        # (or a new library lemma) then cannot perturb this proof (robustness; no semantic effect)
        if (spec.requires or spec.ensures or spec.hints) and not any("spinoff_prover" in a for a in attrs):
            attrs.append("#[verifier::spinoff_prover]")
        for a in attrs:
            out.append(a + "\n")
        if spec.external_body:
            out.append("#[verifier::external_body]\n")
    out.append(header)
    if ret is not None:
        if spec is not None and spec.ret:
            out.append(" -> (%s: %s)" % (spec.ret, ret))
        else:
            out.append(" -> " + ret)
    if where:
        out.append("\n    " + where)
    if spec is not None:
        if spec.requires:
            out.append("\n    requires\n        " + ",\n        ".join(c.strip().rstrip(",") for c in spec.requires) + ",")
        if spec.ensures:
            out.append("\n    ensures\n        " + ",\n        ".join(c.strip().rstrip(",") for c in spec.ensures) + ",")
        if spec.decreases:
            out.append("\n    decreases " + spec.decreases + ",")
    out.append("\n{")
    out.append(body)
    out.append("}")
    return "".join(out), lost


# --------------------------------------------------------------------------
# R10: explicit lexicographic PartialOrd for structs that derive it
# --------------------------------------------------------------------------

def gen_ord(struct_text):
    """For `#[derive(.. PartialOrd ..)] pub struct S { pub a: T, pub b: U }` with integer or
    nested-S fields produce spec fns `S::lt_spec/le_spec` and exec `lt/le/gt/ge` via PartialOrd impl."""
    m = re.search(r"struct\s+(\w+)\s*\{(.*)\}", struct_text, re.S)
    if not m:
        return ""
    name = m.group(1)
    fields = re.findall(r"(?:pub\s+)?(\w+)\s*:\s*([\w:]+)", m.group(2))
    prim = {"i8", "i16", "i32", "i64", "i128", "u8", "u16", "u32", "u64", "u128", "usize", "isize"}
    # spec: lexicographic compare as int key is awkward for nested; generate cmp_spec returning int -1/0/1
    lines = []
    lines.append("impl %s {" % name)
    lines.append("    pub open spec fn cmp_spec(self, o: %s) -> int {" % name)
    expr = "0int"
    for fname, fty in reversed(fields):
        if fty in prim:
            expr = "if self.%s < o.%s { -1int } else if self.%s > o.%s { 1int } else { %s }" % (fname, fname, fname, fname, expr)
        else:
            expr = "if self.%s.cmp_spec(o.%s) != 0 { self.%s.cmp_spec(o.%s) } else { %s }" % (fname, fname, fname, fname, expr)
    lines.append("        " + expr)
    lines.append("    }")
    lines.append("    pub fn cmp_exec(&self, o: &%s) -> (r: i8) ensures r as int == self.cmp_spec(*o), -1 <= r <= 1 {" % name)
    body = "0"
    for fname, fty in reversed(fields):
        if fty in prim:
            body = "if self.%s < o.%s { -1 } else if self.%s > o.%s { 1 } else { %s }" % (fname, fname, fname, fname, body)
        else:
            body = "{ let c = self.%s.cmp_exec(&o.%s); if c != 0 { c } else { %s } }" % (fname, fname, body)
    lines.append("        " + body)
    lines.append("    }")
    lines.append("}")
    lines.append("impl vstd::std_specs::cmp::PartialOrdSpecImpl for %s {" % name)
    lines.append("    open spec fn obeys_partial_cmp_spec() -> bool { true }")
    lines.append("    open spec fn partial_cmp_spec(&self, other: &%s) -> Option<core::cmp::Ordering> {" % name)
    lines.append("        Some(if self.cmp_spec(*other) < 0 { core::cmp::Ordering::Less } else if self.cmp_spec(*other) > 0 { core::cmp::Ordering::Greater } else { core::cmp::Ordering::Equal })")
    lines.append("    }")
    lines.append("}")
    lines.append("impl core::cmp::PartialOrd for %s {" % name)
    lines.append("    fn partial_cmp(&self, other: &%s) -> (r: Option<core::cmp::Ordering>) {" % name)
    lines.append("        let c = self.cmp_exec(other);")
    lines.append("        if c < 0 { Some(core::cmp::Ordering::Less) } else if c > 0 { Some(core::cmp::Ordering::Greater) } else { Some(core::cmp::Ordering::Equal) }")
    lines.append("    }")
    lines.append("}")
    return "\n".join(lines) + "\n"


# --------------------------------------------------------------------------
# building the Verus file
# --------------------------------------------------------------------------

class Emitted:
    def __init__(self):
        self.text = ""
        self.fn_lines = []       # [(qualname, first_line, last_line, src_rel, src_line)]
        self.lost_anchors = []   # [(fn, anchor)]
        self.functions = []      # [{name, file, line, contract: bool}]
        self.dropped = []        # human-readable list of what extraction dropped
        self.trusted = []        # lines with external_body / assume_specification / admit / assume


def build(unit, repo_root, source_map=None, probe=None):
    """source_map: {relpath in unit file: relpath actually read} (the jiff-static copy of shared/)."""
    _TLS.probe = probe
    try:
        return _build(unit, repo_root, source_map)
    finally:
        _TLS.probe = None


import threading
_TLS = threading.local()   # per-thread build state (units are built concurrently by the driver): macros, probe mode


def _item_text(src, it):
    """item text with the unit's `//@expand` macros expanded (R14)"""
    txt = src.item_text(it)
    for name, pat, tr in getattr(_TLS, "macros", []):
        if (name + "!") in txt:
            from . import macroexp
            try:
                txt, _n = macroexp.expand(txt, name, pat, tr)
            except macroexp.MacroError as e:
                raise ExtractError("unsupported-construct", "macro %s!: %s" % (name, e))
    return txt


def _build(unit, repo_root, source_map=None):
    _TLS.macros = []
    for name, rel in unit.expands:
        from . import macroexp
        try:
            pat, tr = macroexp.parse_definition(open(os.path.join(repo_root, rel)).read(), name)
        except (OSError, macroexp.MacroError) as e:
            raise ExtractError("lost-anchor", "macro_rules! %s in %s: %s" % (name, rel, e))
        _TLS.macros.append((name, pat, tr))
    em = Emitted()
    source_map = source_map or {}
    chunks = []
    fn_markers = []
    used = set()
    for rel, mode, itemspecs, dropspecs in unit.sources:
        rel = source_map.get(rel, rel)
        src = Source(repo_root, rel)
        if mode == "whole":
            selected = []
            for it in src.items:
                if src.is_test_item(it):
                    em.dropped.append("%s: #[cfg(test)] item %s %s" % (rel, it.kind, it.name))
                    continue
                if it.kind in ("use", "macro", "other"):
                    em.dropped.append("%s: %s %s" % (rel, it.kind, it.name or ""))
                    continue
                if it.kind == "mod":
                    em.dropped.append("%s: mod %s" % (rel, it.name))
                    continue
                spec = "%s %s" % (it.kind, it.name if it.kind != "impl" else rs.impl_self_type(it.name)[1])
                if any(spec == d or (it.kind == "impl" and d == "impl " + it.name) for d in dropspecs):
                    em.dropped.append("%s: %s (dropped by unit)" % (rel, spec))
                    continue
                selected.append(it)
        else:
            selected = []
            for s in itemspecs:
                if s.startswith("fn ") and (s.count("::") == 1 or s.startswith("fn <")):
                    # a method cut out of (possibly generic) impl block: re-wrapped in `impl <Type> { .. }`
                    f, imp = src.find_fn(s[3:])
                    selected.append(("method", s[3:], f))
                else:
                    selected.append(src.find_item(s))
        for it in selected:
            if isinstance(it, tuple):
                _, q, f = it
                ty = q.split("::")[0]
                mt = re.match(r"<(\w+) as ([\w<>, ()]+)>::", q)
                spec = unit.fns.get(q)
                if mt and spec is not None and spec.inherent:
                    ty = mt.group(1)
                    mt = None
                elif mt:
                    ty = "%s for %s" % (mt.group(2), mt.group(1))   # `impl Trait for Type { .. }`
                if spec:
                    used.add(q)
                txt = generic_rewrites(_item_text(src, f))
                if not mt:
                    txt = r_pub_item(txt)
                txt, lost = splice_fn(txt, spec)
                for a in lost:
                    em.lost_anchors.append((q, a))
                line = src.line_of(src.toks[f.extra["kw"]].start)
                em.functions.append({"name": q, "file": rel, "line": line, "contract": bool(spec and (spec.requires or spec.ensures))})
                chunks.append("impl %s {\n// @fn %s @src %s:%d\n%s\n}\n" % (ty, q, rel, line, txt))
                continue
            if it.kind == "impl":
                tr, st = rs.impl_self_type(it.name)
                sub = src.impl_items(it)
                inner = []
                for f in sub:
                    if src.is_test_item(f):
                        em.dropped.append("%s: #[cfg(test)] %s::%s" % (rel, st, f.name))
                        continue
                    q = "%s::%s" % (st, f.name) if tr is None else "<%s as %s>::%s" % (st, re.sub(r"\s", "", tr), f.name)
                    if ("fn " + q) in dropspecs:
                        em.dropped.append("%s: fn %s (dropped by unit)" % (rel, q))
                        continue
                    txt = generic_rewrites(_item_text(src, f))
                    if tr is None and f.kind in ("fn", "const"):
                        txt = r_pub_item(txt)
                    if f.kind == "fn":
                        spec = unit.fns.get(q)
                        if spec:
                            used.add(q)
                        txt, lost = splice_fn(txt, spec)
                        for a in lost:
                            em.lost_anchors.append((q, a))
                        line = src.line_of(src.toks[f.extra["kw"]].start)
                        em.functions.append({"name": q, "file": rel, "line": line, "contract": bool(spec and (spec.requires or spec.ensures))})
                        inner.append("// @fn %s @src %s:%d\n%s" % (q, rel, line, txt))
                    else:
                        inner.append(txt)
                hdr = generic_rewrites("impl " + it.name)
                chunks.append("%s {\n%s\n}\n" % (hdr.strip(), "\n\n".join(inner)))
            elif it.kind == "fn":
                # could be nested (found through find_item with Type::m::inner)
                q = it.name
                for s in itemspecs:
                    if s.startswith("fn ") and s.split("::")[-1] == it.name and s[3:] in unit.fns:
                        q = s[3:]
                spec = unit.fns.get(q)
                if spec:
                    used.add(q)
                txt = r_pub_item(generic_rewrites(_item_text(src, it)))
                txt, lost = splice_fn(txt, spec)
                for a in lost:
                    em.lost_anchors.append((q, a))
                line = src.line_of(src.toks[it.extra["kw"]].start)
                em.functions.append({"name": q, "file": rel, "line": line, "contract": bool(spec and (spec.requires or spec.ensures))})
                chunks.append("// @fn %s @src %s:%d\n%s\n" % (q, rel, line, txt))
            elif it.kind in ("struct", "enum"):
                raw = src.item_text(it)
                txt = r_pub_fields(r_pub_item(generic_rewrites(raw)))
                chunks.append(txt + "\n")
                if it.kind == "struct" and re.search(r"derive\([^)]*PartialOrd", raw):
                    chunks.append(gen_ord(txt))
            else:
                chunks.append(r_pub_item(generic_rewrites(_item_text(src, it))) + "\n")
    missing = [q for q in unit.fns if q not in used]
    if missing:
        raise ExtractError("lost-anchor", "functions under contract not found: %s" % ", ".join(missing))
    body = "\n".join(chunks)
    for rx, rp, note in unit.rewrites:
        body, n = re.subn(rx, rp, body)
        if n == 0:
            em.lost_anchors.append(("<unit rewrite>", rx))
    text = "#![allow(unused, non_snake_case, non_upper_case_globals)]\nuse vstd::prelude::*;\nverus! {\n" + "\n".join(unit.prelude) + "\n\n// ==== extracted from /repo ====\n" + body + "\n// ==== end extracted ====\n\n" + "\n".join(unit.postlude) + "\n} // verus!\nfn main() {}\n"
    em.text = text
    # line map
    lines = text.split("\n")
    cur = None
    for ln, l in enumerate(lines, 1):
        m = re.match(r"// @fn (.+?) @src (\S+):(\d+)", l)
        if m:
            if cur:
                cur[2] = ln - 1
            cur = [m.group(1), ln, None, m.group(2), int(m.group(3))]
            em.fn_lines.append(cur)
        elif l.startswith("// ==== end extracted") and cur:
            cur[2] = ln
            cur = None
    # trusted-base scan
    for ln, l in enumerate(lines, 1):
        if re.search(r"external_body|assume_specification|\badmit\(\)|\bassume\(|external_fn_specification|#\[verifier::external\]|uninterp spec", l):
            em.trusted.append("%d: %s" % (ln, l.strip()[:160]))
    return em


def fn_at_line(em, line):
    best = None
    for name, a, b, rel, sl in em.fn_lines:
        if a <= line and (b is None or line <= b):
            best = (name, rel, sl)
    return best


if __name__ == "__main__":
    u = Unit(sys.argv[1])
    em = build(u, sys.argv[2] if len(sys.argv) > 2 else "/repo")
    sys.stdout.write(em.text)
    for f, a in em.lost_anchors:
        sys.stderr.write("LOST-ANCHOR %s: %s\n" % (f, a))
