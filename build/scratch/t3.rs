use vstd::prelude::*;
verus! {
fn m1(a: i64, b: i64) -> (r: i64)
    requires b > 0, a >= 0
    ensures r == (a as int) % (b as int)
{ a % b }
fn m1b(a: i64, b: i64) -> (r: i64)
    requires b > 0, a < 0
    ensures r == -((-(a as int)) % (b as int))
{ a % b }
fn m1c(a: i64, b: i64) -> (r: i64)
    requires b > 0, 
    ensures r == a - (a/b)*b
{ a % b }
fn m2(a: i64, b: i64) -> (r: i64)
    requires b < 0, a > i64::MIN
    ensures r == a - (a/b)*b
{ a % b }
fn d2(a: i64, b: i64) -> (r: i64)
    requires b < 0, a > i64::MIN, a >= 0
    ensures r == -((a as int) / (-(b as int)))
{ a / b }
fn d3(a: i64, b: i64) -> (r: i64)
    requires b < 0, a > i64::MIN, a < 0
    ensures r == ((-(a as int)) / (-(b as int)))
{ a / b }
}
fn main() {}
