use vstd::prelude::*;
verus! {
pub open spec fn tdiv(a: int, b: int) -> int {
    if b > 0 { if a >= 0 { a / b } else { -((-a) / b) } }
    else { if a >= 0 { -(a / (-b)) } else { (-a) / (-b) } }
}
fn d(a: i64, b: i64) -> (r: i64)
    requires b != 0, !(a == i64::MIN && b == -1)
    ensures r == tdiv(a as int, b as int)
{ a / b }
fn m(a: i64, b: i64) -> (r: i64)
    requires b != 0, !(a == i64::MIN && b == -1)
    ensures r == a - tdiv(a as int, b as int) * b
{ a % b }
fn p(a: i64) { if a < 0 { panic!("x") } }
}
fn main() {}
