use vstd::prelude::*;
verus! {
pub open spec fn tdiv(a: int, b: int) -> int {
    if b > 0 { if a >= 0 { a / b } else { -((-a) / b) } }
    else { if a >= 0 { -(a / (-b)) } else { (-a) / (-b) } }
}
pub open spec fn trem(a: int, b: int) -> int { a - tdiv(a, b) * b }
pub open spec fn iabs(a: int) -> int { if a < 0 { -a } else { a } }

// Euclidean division by a positive divisor, the only primitive fact used
pub proof fn lemma_euclid(x: int, d: int)
    requires x >= 0, d > 0,
    ensures x == (x / d) * d + x % d, 0 <= x % d < d, 0 <= x / d <= x,
{
    vstd::arithmetic::div_mod::lemma_fundamental_div_mod(x, d);
    vstd::arithmetic::div_mod::lemma_mod_bound(x, d);
    assert(d * (x / d) == (x / d) * d) by (nonlinear_arith);
    assert(0 <= x / d <= x) by (nonlinear_arith) requires x >= 0, d > 0, x == (x / d) * d + x % d, 0 <= x % d < d;
}
pub proof fn lemma_tdiv(a: int, b: int)
    requires b != 0,
    ensures a == tdiv(a, b) * b + trem(a, b), iabs(trem(a, b)) < iabs(b),
            a >= 0 ==> trem(a, b) >= 0, a <= 0 ==> trem(a, b) <= 0,
            iabs(tdiv(a, b)) <= iabs(a), iabs(trem(a, b)) <= iabs(a),
{
    let x = iabs(a); let d = iabs(b);
    lemma_euclid(x, d);
    let q = x / d;
    assert((-q) * b == -(q * b)) by (nonlinear_arith);
    assert(q * (-b) == -(q * b)) by (nonlinear_arith);
}
pub proof fn lemma_tdiv_unique(a: int, b: int, q: int, r: int)
    requires b != 0, a == q * b + r, iabs(r) < iabs(b), a >= 0 ==> r >= 0, a <= 0 ==> r <= 0,
    ensures q == tdiv(a, b), r == trem(a, b),
{
    lemma_tdiv(a, b);
    let q0 = tdiv(a, b); let r0 = trem(a, b);
    assert((q - q0) * b == r0 - r) by (nonlinear_arith) requires a == q * b + r, a == q0 * b + r0;
    assert(iabs(r0 - r) < iabs(b));
    assert(q == q0) by (nonlinear_arith) requires (q - q0) * b == r0 - r, iabs(r0 - r) < iabs(b), b != 0;
}
// vstd's model of exec `/` and `%` on signed machine integers (std_specs::ops::DivSpec/RemSpec) is tdiv/trem
pub proof fn lemma_rust_div(a: int, b: int)
    requires b != 0,
    ensures (if a == 0 { 0 } else if a > 0 { a / b } else { -((-a) / b) }) == tdiv(a, b),
            (if a == 0 { 0 } else if a > 0 { a % b } else { -((-a) % b) }) == trem(a, b),
{
    let x = iabs(a);
    vstd::arithmetic::div_mod::lemma_fundamental_div_mod(x, b);
    assert(b * (x / b) == (x / b) * b) by (nonlinear_arith);
    assert(0 <= x % b < iabs(b)) by (nonlinear_arith) requires b != 0;
    lemma_tdiv_unique(x, b, x / b, x % b);
    if a < 0 {
        lemma_tdiv(a, b);
        assert((-(x / b)) * b == -((x / b) * b)) by (nonlinear_arith);
        lemma_tdiv_unique(a, b, -(x / b), -(x % b));
    }
    if a == 0 { lemma_tdiv_unique(0, b, 0, 0); }
}

pub open spec fn signs_agree(s: int, n: int) -> bool { !(s > 0 && n < 0) && !(s < 0 && n > 0) }

// ---- multiplication of (secs, nanos) by a scalar, componentwise
pub proof fn lemma_mul_parts(s: int, n: int, k: int)
    requires signs_agree(s, n), -999_999_999 <= n <= 999_999_999, -0x8000_0000 <= k <= 0x7fff_ffff,
    ensures (s * 1_000_000_000 + n) * k == (s * k) * 1_000_000_000 + n * k,
            signs_agree(s * k, n * k),
            -999_999_999 * 0x8000_0000 <= n * k <= 999_999_999 * 0x8000_0000,
{
    assert((s * 1_000_000_000 + n) * k == (s * k) * 1_000_000_000 + n * k) by (nonlinear_arith);
    assert(signs_agree(s * k, n * k)) by (nonlinear_arith) requires signs_agree(s, n);
    assert(-999_999_999 * 0x8000_0000 <= n * k <= 999_999_999 * 0x8000_0000) by (nonlinear_arith)
        requires -999_999_999 <= n <= 999_999_999, -0x8000_0000 <= k <= 0x7fff_ffff;
}
pub proof fn lemma_mul_sign(a: int, k: int)
    ensures a * k > 0 <==> ((a > 0 && k > 0) || (a < 0 && k < 0)),
            a * k < 0 <==> ((a > 0 && k < 0) || (a < 0 && k > 0)),
{
    assert(a * k > 0 <==> ((a > 0 && k > 0) || (a < 0 && k < 0))) by (nonlinear_arith);
    assert(a * k < 0 <==> ((a > 0 && k < 0) || (a < 0 && k > 0))) by (nonlinear_arith);
}
// ---- division of (secs, nanos) by a scalar, the way checked_div does it
pub proof fn lemma_div_parts(s: int, n: int, d: int)
    requires signs_agree(s, n), -999_999_999 <= n <= 999_999_999, d != 0,
    ensures ({
        let q1 = tdiv(s, d); let r1 = trem(s, d); let q2 = tdiv(n, d); let r2 = trem(n, d);
        let l = r1 * 1_000_000_000 + r2; let q3 = tdiv(l, d);
        &&& tdiv(s * 1_000_000_000 + n, d) == q1 * 1_000_000_000 + q2 + q3
        &&& -999_999_999 <= q2 + q3 <= 999_999_999
        &&& -999_999_999 <= q3 <= 999_999_999
        &&& signs_agree(q1, q2 + q3)
        &&& -iabs(d) * 1_000_000_000 < r1 * 1_000_000_000 < iabs(d) * 1_000_000_000
        &&& -iabs(d) * 1_000_000_001 < l < iabs(d) * 1_000_000_001
    }),
{
    let t = s * 1_000_000_000 + n;
    let q1 = tdiv(s, d); let r1 = trem(s, d); let q2 = tdiv(n, d); let r2 = trem(n, d);
    let l = r1 * 1_000_000_000 + r2; let q3 = tdiv(l, d); let r3 = trem(l, d);
    lemma_tdiv(s, d); lemma_tdiv(n, d); lemma_tdiv(l, d);
    let m = q2 + q3;
    let big = n + r1 * 1_000_000_000;
    assert((q1 * 1_000_000_000 + m) * d == (q1 * d) * 1_000_000_000 + q2 * d + q3 * d) by (nonlinear_arith) requires m == q2 + q3;
    assert(t == (q1 * 1_000_000_000 + m) * d + r3);
    lemma_tdiv_unique(t, d, q1 * 1_000_000_000 + m, r3);
    // |n + r1*1e9| < |d|*1e9 and it equals m*d + r3 with r3 between 0 and it
    assert(m * d == q2 * d + q3 * d) by (nonlinear_arith) requires m == q2 + q3;
    assert(big == m * d + r3);
    let x = iabs(d) * 1_000_000_000;
    assert(-x < m * d < x);
    assert(-1_000_000_000 < m < 1_000_000_000) by (nonlinear_arith) requires -x < m * d < x, x == iabs(d) * 1_000_000_000, d != 0;
    assert(-x < q3 * d < x);
    assert(-1_000_000_000 < q3 < 1_000_000_000) by (nonlinear_arith) requires -x < q3 * d < x, x == iabs(d) * 1_000_000_000, d != 0;
    // signs: q1*d and m*d are both >= 0 or both <= 0
    assert(signs_agree(q1, m)) by (nonlinear_arith)
        requires d != 0, (q1 * d >= 0 && m * d >= 0) || (q1 * d <= 0 && m * d <= 0);
}
}
fn main() {}
