import itertools, sys
def leap(y): return y%4==0 and (y%100!=0 or y%400==0)
def dim(y,m): return (29 if leap(y) else 28) if m==2 else (30 if m in (4,6,9,11) else 31)
def rd(y,m,d):
    yy = y-1 if m<=2 else y; mm = m+12 if m<=2 else m
    return 365*yy + yy//4 - yy//100 + yy//400 + (153*(mm-3)+2)//5 + d - 1 - 719468
def sgn(x): return (x>0)-(x<0)
def mao(y,m,delta):
    m += delta
    if m<1: y-=1; m+=12
    elif m>12: y+=1; m-=12
    assert -9999<=y<=9999 and 1<=m<=12, "unwrap"
    return y,m
def diff(d1,d2,largest):
    y1,m1,dd1=d1; y2,m2,dd2=d2
    years=y2-y1; months=m2-m1; days=dd2-dd1
    if years!=0 or months!=0:
        sign = sgn(years) if years!=0 else sgn(months)
        dim2 = dim(y2,m2); dc=0
        if sgn(days)==-sign:
            orig=dim2
            y2,m2=mao(y2,m2,-sign)
            years=y2-y1; months=m2-m1
            dim2=dim(y2,m2)
            dc = -orig if sign<0 else dim2
        d0=min(dd1,dim2)
        days=dd2-d0+dc
        if years!=0:
            months=m2-m1
            if sgn(months)==-sign:
                mc = -12 if sign<0 else 12
                y2-=sign
                years=y2-y1
                months=m2-m1+mc
    if largest=='M' and years!=0:
        months=months+years*12; years=0
    return years,months,days
def add(d1,years,months,days):
    y,m,d=d1
    t=y*12+m-1+years*12+months
    y2,m2=t//12,t%12+1
    d2=min(d,dim(y2,m2))
    return rd(y2,m2,d2)+days, (y2,m2,d2)
def dates(ylo,yhi):
    for y in range(ylo,yhi+1):
        for m in range(1,13):
            for d in range(1,dim(y,m)+1):
                yield (y,m,d)
ylo,yhi,blo,bhi=map(int,sys.argv[1:5])
D=list(dates(ylo,yhi)); DB=list(dates(blo,bhi))
bad={}
maxd=0
for a in D:
    for b in DB:
        for L in 'MY':
            ys,ms,ds=diff(a,b,L)
            s=sgn(rd(*b)-rd(*a))
            r,(y2,m2,d2)=add(a,ys,ms,ds)
            def rec(k): bad.setdefault(k,(a,b,L,ys,ms,ds))
            if r!=rd(*b): rec('rev')
            for v in (ys,ms,ds):
                if v!=0 and sgn(v)!=s: rec('sign')
            if L=='M' and ys!=0: rec('above')
            if L=='Y' and abs(ms)>=12: rec('baly')
            if abs(ds)>30: rec('d30')
            if abs(ds)>=dim(y2,m2): rec('d<dim(landing)')
            # one more month (clamped) overshoot-or-equal
            if s!=0:
                r2,_=add(a,ys,ms+s,0)
                if s>0 and not (r2>=rd(*b)): rec('over+')
                if s<0 and not (r2<=rd(*b)): rec('over-')
                if s>0 and not (r2>rd(*b)): rec('overstrict+')
                if s<0 and not (r2<rd(*b)): rec('overstrict-')
                # unclamped
                t=a[0]*12+a[1]-1+ys*12+ms+s
                ru=rd(t//12,t%12+1,a[2])
                if s>0 and not ru>rd(*b): rec('uover+')
                if s<0 and not ru<rd(*b): rec('uover-')
            else:
                if (ys,ms,ds)!=(0,0,0): rec('zero')
for k,v in bad.items(): print(k,v)
print("done",len(D))
