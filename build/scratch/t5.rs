use vstd::prelude::*;
verus! {
pub const NANOS_PER_SEC: i32 = 1_000_000_000;
fn f(secs: i64, n: i32) -> (r: i128)
    requires -999_999_999 <= n <= 999_999_999
    ensures r == secs * 1_000_000_000 + n
{
    let nanos = (secs as i128) * (NANOS_PER_SEC as i128);
    proof { assert(nanos == secs as int * 1_000_000_000); }
    nanos + (n as i128)
}
fn f2(secs: i64, n: i32) -> (r: i128)
    requires -999_999_999 <= n <= 999_999_999
    ensures r == secs * 1_000_000_000 + n
{
    proof { assert(NANOS_PER_SEC as i128 == 1_000_000_000); }
    let nanos = (secs as i128) * (NANOS_PER_SEC as i128);
    nanos + (n as i128)
}
}
fn main() {}
