use vstd::prelude::*;
verus! {
fn m1(a: i64, b: i64) -> (r: i64)
    requires b != 0, a > i64::MIN
    ensures r == 7
{ let q = a / b; let m = a % b; q + m }
}
fn main() {}
