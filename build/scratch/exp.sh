#!/bin/bash
# usage: exp.sh file.rs  -> run verus on the main fn only
cd /verif/build/scratch && ( time verus $1 --multiple-errors 5 --verify-function since_with_largest_unit --verify-root ${@:2} 2>&1 | grep -v '^note\|^warning: type\|camel\|^ *|$\|^ *= note\|^$\|pub struct ri\|civildiff.rs:[0-9]*:12$\|cd[0-9]*.rs:[0-9]*:12$' | head -60 ) 2>&1
