#![feature(negative_impls)]
#![feature(with_negative_coherence)]
#![feature(box_patterns)]
#![feature(ptr_metadata)]
#![feature(never_type)]
#![feature(allocator_api)]
#![feature(unboxed_closures)]
#![feature(fn_traits)]
#![feature(tuple_trait)]
#![feature(f16)]
#![feature(f128)]
#![allow(non_camel_case_types)]
#![allow(unused_imports)]
#![allow(unused_variables)]
#![allow(unused_assignments)]
#![allow(unreachable_patterns)]
#![allow(unused_parens)]
#![allow(unused_braces)]
#![allow(dead_code)]
#![allow(unreachable_code)]
#![allow(unconditional_recursion)]
#![allow(unused_mut)]
#![allow(unused_labels)]
use std::marker::PhantomData;
use std::marker::Tuple;
use std::rc::Rc;
use std::sync::Arc;
use std::alloc::Allocator;
use std::alloc::Global;
use std::mem::ManuallyDrop;
use std::ptr::Pointee;
use std::ptr::Thin;
fn op<A, B>(a: A) -> B { panic!() }
fn static_ref<T>(t: T) -> &'static T { panic!() }
fn tracked_new<T>(t: T) -> Tracked<T> { panic!() }
fn tracked_exec_borrow<'a, T>(t: &'a T) -> &'a Tracked<T> { panic!() }
fn clone<T>(t: &T) -> T { panic!() }
fn rc_new<T>(t: T) -> std::rc::Rc<T> { panic!() }
fn arc_new<T>(t: T) -> std::sync::Arc<T> { panic!() }
fn box_new<T>(t: T) -> Box<T> { panic!() }
struct Tracked<A> { a: PhantomData<A> }
impl<A> Tracked<A> {
    pub fn get(self) -> A { panic!() }
    pub fn borrow(&self) -> &A { panic!() }
    pub fn borrow_mut(&mut self) -> &mut A { panic!() }
}
struct Ghost<A> { a: PhantomData<A> }
impl<A> Clone for Ghost<A> { fn clone(&self) -> Self { panic!() } }
impl<A> Copy for Ghost<A> { }
impl<A: Copy> Clone for Tracked<A> { fn clone(&self) -> Self { panic!() } }
impl<A: Copy> Copy for Tracked<A> { }
#[derive(Clone, Copy)] struct int;
#[derive(Clone, Copy)] struct nat;
#[derive(Clone, Copy)] struct real;
struct FnSpec<Args, Output> { x: PhantomData<(Args, Output)> }
struct InvariantBlockGuard;
fn open_atomic_invariant_begin<'a, X, V>(_inv: &'a X) -> (InvariantBlockGuard, V) { panic!(); }
fn open_local_invariant_begin<'a, X, V>(_inv: &'a X) -> (InvariantBlockGuard, V) { panic!(); }
fn open_invariant_end<V>(_guard: InvariantBlockGuard, _v: V) { panic!() }
fn index<'a, V, Idx, Output>(v: &'a V, index: Idx) -> &'a Output { panic!() }
trait IndexSet{
fn index_set<Idx, V>(&mut self, index: Idx, val: V) { panic!() }
}
impl<A:?Sized> IndexSet for A {}
struct C<const N: usize, A: ?Sized>(Box<A>);
struct Arr<A: ?Sized, const N: usize>(Box<A>);
struct Dyn<const N: usize, A>(Box<A>, [bool]);
fn use_type_invariant<A>(a: A) -> A { a }

struct FnProof<'a, P, M, N, A, O>(PhantomData<P>, PhantomData<M>, PhantomData<N>, PhantomData<&'a fn(A) -> O>);
struct FOpts<const B: u8, C, const D: u8, const E: u8, const G: u8>(PhantomData<C>);
trait ProofFnOnce {}
trait ProofFnMut: ProofFnOnce {}
trait ProofFn: ProofFnMut {}
struct ProofFnConfirm;
trait ConfirmCopy<const D: u8, F> {}
trait ConfirmUsage<A, O, const B: u8, F> {}
impl<const B: u8, C, const E: u8, const G: u8> Clone for FOpts<B, C, 4, E, G> { fn clone(&self) -> Self { panic!() } }
impl<const B: u8, C, const E: u8, const G: u8> Copy for FOpts<B, C, 4, E, G> {}
impl<const B: u8, C, const D: u8, const E: u8, const G: u8> ProofFnOnce for FOpts<B, C, D, E, G> {}
impl<C, const D: u8, const E: u8, const G: u8> ProofFnMut for FOpts<2, C, D, E, G> {}
impl<C, const D: u8, const E: u8, const G: u8> ProofFnMut for FOpts<3, C, D, E, G> {}
impl<C, const D: u8, const E: u8, const G: u8> ProofFn for FOpts<3, C, D, E, G> {}
impl<'a, P: Copy, M, N, A, O> Clone for FnProof<'a, P, M, N, A, O> { fn clone(&self) -> Self { panic!() } }
impl<'a, P: Copy, M, N, A, O> Copy for FnProof<'a, P, M, N, A, O> {}
impl<'a, P: ProofFnOnce, M, N, A: Tuple, O> FnOnce<A> for FnProof<'a, P, M, N, A, O> {
    type Output = O;
    extern "rust-call" fn call_once(self, _: A) -> <Self as FnOnce<A>>::Output { panic!() }
}
impl<'a, P: ProofFnMut, M, N, A: Tuple, O> FnMut<A> for FnProof<'a, P, M, N, A, O> {
    extern "rust-call" fn call_mut(&mut self, _: A) -> <Self as FnOnce<A>>::Output { panic!() }
}
impl<'a, P: ProofFn, M, N, A: Tuple, O> Fn<A> for FnProof<'a, P, M, N, A, O> {
    extern "rust-call" fn call(&self, _: A) -> <Self as FnOnce<A>>::Output { panic!() }
}
impl<F: Copy> ConfirmCopy<4, F> for ProofFnConfirm {}
impl<F> ConfirmCopy<0, F> for ProofFnConfirm {}
impl<A: Tuple, O, F: FnOnce<A, Output = O>> ConfirmUsage<A, O, 1, F> for ProofFnConfirm {}
impl<A: Tuple, O, F: FnMut<A, Output = O>> ConfirmUsage<A, O, 2, F> for ProofFnConfirm {}
impl<A: Tuple, O, F: Fn<A, Output = O>> ConfirmUsage<A, O, 3, F> for ProofFnConfirm {}
pub fn closure_to_fn_proof<'a, const B: u8, const D: u8, const E: u8, const G: u8, M, N, A, O, F: 'a>(_f: F) -> FnProof<'a, FOpts<B, (), D, E, G>, M, N, A, O>
where ProofFnConfirm: ConfirmUsage<A, O, B, F>, ProofFnConfirm: ConfirmCopy<D, F>, M: Tuple, A: Tuple,
{ panic!() }

fn main() {}



trait T1_Tuple {
}

trait T3_FnOnce<A2_Args, > where A2_Args: Tuple,  {
    type A4_Output : ;
}

trait T5_FnMut<A2_Args, > where Self: T3_FnOnce<A2_Args, >, A2_Args: Tuple,  {
}

trait T6_Fn<A2_Args, > where Self: T5_FnMut<A2_Args, >, A2_Args: Tuple,  {
}

trait T7_Allocator {
}

trait T9_Div<A8_Rhs, > where  {
    type A4_Output : ;
}

trait T10_DivSpec<A8_Rhs, > where Self: T9_Div<A8_Rhs, >,  {
}

trait T11_Rem<A8_Rhs, > where  {
    type A4_Output : ;
}

trait T12_RemSpec<A8_Rhs, > where Self: T11_Rem<A8_Rhs, >,  {
}

impl T10_DivSpec<i64, > for i64 {
}

impl T12_RemSpec<i64, > for i64 {
}

impl T9_Div<i64, > for C<2, (Box<i64, >, ), > {
    type A4_Output = i64;
}

impl T9_Div<C<2, (Box<i64, >, ), >, > for C<2, (Box<i64, >, ), > {
    type A4_Output = i64;
}

impl T9_Div<i64, > for i64 {
    type A4_Output = i64;
}

impl T9_Div<C<2, (Box<i64, >, ), >, > for i64 {
    type A4_Output = i64;
}

impl T9_Div<int, > for int {
    type A4_Output = int;
}

impl T9_Div<nat, > for nat {
    type A4_Output = nat;
}

impl T11_Rem<i64, > for C<2, (Box<i64, >, ), > {
    type A4_Output = i64;
}

impl T11_Rem<C<2, (Box<i64, >, ), >, > for C<2, (Box<i64, >, ), > {
    type A4_Output = i64;
}

impl T11_Rem<i64, > for i64 {
    type A4_Output = i64;
}

impl T11_Rem<C<2, (Box<i64, >, ), >, > for i64 {
    type A4_Output = i64;
}

impl T11_Rem<int, > for int {
    type A4_Output = int;
}

impl T11_Rem<nat, > for nat {
    type A4_Output = nat;
}

impl<A13_A, A14_F, > T6_Fn<A13_A, > for C<2, (Box<A14_F, >, ), > where A13_A: Tuple, A14_F: T6_Fn<A13_A, >, A14_F : ?Sized,  {
}

impl<A2_Args, A14_F, A13_A, > T6_Fn<A2_Args, > for C<4, (Box<A14_F, >, Box<A13_A, >, ), > where A2_Args: Tuple, A14_F: T6_Fn<A2_Args, >, A13_A: T7_Allocator, A14_F : ?Sized,  {
}

impl<A13_A, A14_F, > T5_FnMut<A13_A, > for C<2, (Box<A14_F, >, ), > where A13_A: Tuple, A14_F: T6_Fn<A13_A, >, A14_F : ?Sized,  {
}

impl<A13_A, A14_F, > T5_FnMut<A13_A, > for C<3, (Box<A14_F, >, ), > where A13_A: Tuple, A14_F: T5_FnMut<A13_A, >, A14_F : ?Sized,  {
}

impl<A2_Args, A14_F, A13_A, > T5_FnMut<A2_Args, > for C<4, (Box<A14_F, >, Box<A13_A, >, ), > where A2_Args: Tuple, A14_F: T5_FnMut<A2_Args, >, A13_A: T7_Allocator, A14_F : ?Sized,  {
}

impl<A13_A, A14_F, > T3_FnOnce<A13_A, > for C<2, (Box<A14_F, >, ), > where A13_A: Tuple, A14_F: T6_Fn<A13_A, >, A14_F : ?Sized,  {
    type A4_Output = <A14_F as T3_FnOnce<A13_A, >>::A4_Output;
}

impl<A13_A, A14_F, > T3_FnOnce<A13_A, > for C<3, (Box<A14_F, >, ), > where A13_A: Tuple, A14_F: T5_FnMut<A13_A, >, A14_F : ?Sized,  {
    type A4_Output = <A14_F as T3_FnOnce<A13_A, >>::A4_Output;
}

impl<A2_Args, A14_F, A13_A, > T3_FnOnce<A2_Args, > for C<4, (Box<A14_F, >, Box<A13_A, >, ), > where A2_Args: Tuple, A14_F: T3_FnOnce<A2_Args, >, A13_A: T7_Allocator, A14_F : ?Sized,  {
    type A4_Output = <A14_F as T3_FnOnce<A2_Args, >>::A4_Output;
}

impl<A13_A, > T7_Allocator for C<2, (Box<A13_A, >, ), > where A13_A: T7_Allocator, A13_A : ?Sized,  {
}

impl<A13_A, > T7_Allocator for C<3, (Box<A13_A, >, ), > where A13_A: T7_Allocator, A13_A : ?Sized,  {
}

impl<A15_T, A13_A, > T7_Allocator for C<4, (Box<A15_T, >, Box<A13_A, >, ), > where A15_T: T7_Allocator, A13_A: T7_Allocator, A15_T : ?Sized,  {
}

impl<A15_T, A13_A, > T7_Allocator for C<5, (Box<A15_T, >, Box<A13_A, >, ), > where A15_T: T7_Allocator, A13_A: T7_Allocator, A15_T : ?Sized,  {
}

impl<A15_T, A13_A, > T7_Allocator for C<6, (Box<A15_T, >, Box<A13_A, >, ), > where A15_T: T7_Allocator, A13_A: T7_Allocator, A15_T : ?Sized,  {
}
