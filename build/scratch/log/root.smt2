(set-option :auto_config false)
(set-option :smt.mbqi false)
(set-option :smt.case_split 3)
(set-option :smt.qi.eager_threshold 100.0)
(set-option :smt.delay_units true)
(set-option :smt.arith.solver 2)
(set-option :smt.arith.nl false)
(set-option :pi.enabled false)
(set-option :rewriter.sort_disjunctions false)

;; Prelude

;; AIR prelude
(declare-sort %%Function%% 0)

(declare-sort FuelId 0)
(declare-sort Fuel 0)
(declare-const zero Fuel)
(declare-fun succ (Fuel) Fuel)
(declare-fun fuel_bool (FuelId) Bool)
(declare-fun fuel_bool_default (FuelId) Bool)
(declare-const fuel_defaults Bool)
(assert
 (=>
  fuel_defaults
  (forall ((id FuelId)) (!
    (= (fuel_bool id) (fuel_bool_default id))
    :pattern ((fuel_bool id))
    :qid prelude_fuel_defaults
    :skolemid skolem_prelude_fuel_defaults
))))
(declare-datatypes ((fndef 0)) (((fndef_singleton))))
(declare-sort Poly 0)
(declare-sort Height 0)
(declare-fun I (Int) Poly)
(declare-fun B (Bool) Poly)
(declare-fun R (Real) Poly)
(declare-fun F (fndef) Poly)
(declare-fun %I (Poly) Int)
(declare-fun %B (Poly) Bool)
(declare-fun %R (Poly) Real)
(declare-fun %F (Poly) fndef)
(declare-sort Type 0)
(declare-const BOOL Type)
(declare-const INT Type)
(declare-const NAT Type)
(declare-const REAL Type)
(declare-const CHAR Type)
(declare-const USIZE Type)
(declare-const ISIZE Type)
(declare-const TYPE%tuple%0. Type)
(declare-fun UINT (Int) Type)
(declare-fun SINT (Int) Type)
(declare-fun FLOAT (Int) Type)
(declare-fun CONST_INT (Int) Type)
(declare-fun CONST_BOOL (Bool) Type)
(declare-sort Dcr 0)
(declare-const $ Dcr)
(declare-const $slice Dcr)
(declare-const $dyn Dcr)
(declare-fun DST (Dcr) Dcr)
(declare-fun REF (Dcr) Dcr)
(declare-fun BOX (Dcr Type Dcr) Dcr)
(declare-fun RC (Dcr Type Dcr) Dcr)
(declare-fun ARC (Dcr Type Dcr) Dcr)
(declare-fun GHOST (Dcr) Dcr)
(declare-fun TRACKED (Dcr) Dcr)
(declare-fun NEVER (Dcr) Dcr)
(declare-fun CONST_PTR (Dcr) Dcr)
(declare-fun ARRAY (Dcr Type Dcr Type) Type)
(declare-fun MUTREF (Dcr Type) Type)
(declare-fun SLICE (Dcr Type) Type)
(declare-const STRSLICE Type)
(declare-const ALLOCATOR_GLOBAL Type)
(declare-fun PTR (Dcr Type) Type)
(declare-fun has_type (Poly Type) Bool)
(declare-fun sized (Dcr) Bool)
(declare-fun as_type (Poly Type) Poly)
(declare-fun mk_fun (%%Function%%) %%Function%%)
(declare-fun const_int (Type) Int)
(declare-fun const_bool (Type) Bool)
(declare-fun mut_ref_current% (Poly) Poly)
(declare-fun mut_ref_future% (Poly) Poly)
(declare-fun mut_ref_update_current% (Poly Poly) Poly)
(assert
 (forall ((m Poly) (arg Poly)) (!
   (= (mut_ref_current% (mut_ref_update_current% m arg)) arg)
   :pattern ((mut_ref_update_current% m arg))
   :qid prelude_mut_ref_update_current_current
   :skolemid skolem_prelude_mut_ref_update_current_current
)))
(assert
 (forall ((m Poly) (arg Poly)) (!
   (= (mut_ref_future% (mut_ref_update_current% m arg)) (mut_ref_future% m))
   :pattern ((mut_ref_update_current% m arg))
   :qid prelude_mut_ref_update_current_future
   :skolemid skolem_prelude_mut_ref_update_current_future
)))
(assert
 (forall ((m Poly) (d Dcr) (t Type)) (!
   (=>
    (has_type m (MUTREF d t))
    (has_type (mut_ref_current% m) t)
   )
   :pattern ((has_type m (MUTREF d t)) (mut_ref_current% m))
   :qid prelude_mut_ref_current_has_type
   :skolemid skolem_prelude_mut_ref_current_has_type
)))
(assert
 (forall ((m Poly) (d Dcr) (t Type)) (!
   (=>
    (has_type m (MUTREF d t))
    (has_type (mut_ref_future% m) t)
   )
   :pattern ((has_type m (MUTREF d t)) (mut_ref_future% m))
   :qid prelude_mut_ref_future_has_type
   :skolemid skolem_prelude_mut_ref_future_has_type
)))
(assert
 (forall ((m Poly) (d Dcr) (t Type) (arg Poly)) (!
   (=>
    (and
     (has_type m (MUTREF d t))
     (has_type arg t)
    )
    (has_type (mut_ref_update_current% m arg) (MUTREF d t))
   )
   :pattern ((has_type m (MUTREF d t)) (mut_ref_update_current% m arg))
   :qid prelude_mut_ref_update_has_type
   :skolemid skolem_prelude_mut_ref_update_has_type
)))
(assert
 (forall ((d Dcr)) (!
   (=>
    (sized d)
    (sized (DST d))
   )
   :pattern ((sized (DST d)))
   :qid prelude_sized_decorate_struct_inherit
   :skolemid skolem_prelude_sized_decorate_struct_inherit
)))
(assert
 (forall ((d Dcr)) (!
   (sized (REF d))
   :pattern ((sized (REF d)))
   :qid prelude_sized_decorate_ref
   :skolemid skolem_prelude_sized_decorate_ref
)))
(assert
 (forall ((d Dcr) (t Type) (d2 Dcr)) (!
   (sized (BOX d t d2))
   :pattern ((sized (BOX d t d2)))
   :qid prelude_sized_decorate_box
   :skolemid skolem_prelude_sized_decorate_box
)))
(assert
 (forall ((d Dcr) (t Type) (d2 Dcr)) (!
   (sized (RC d t d2))
   :pattern ((sized (RC d t d2)))
   :qid prelude_sized_decorate_rc
   :skolemid skolem_prelude_sized_decorate_rc
)))
(assert
 (forall ((d Dcr) (t Type) (d2 Dcr)) (!
   (sized (ARC d t d2))
   :pattern ((sized (ARC d t d2)))
   :qid prelude_sized_decorate_arc
   :skolemid skolem_prelude_sized_decorate_arc
)))
(assert
 (forall ((d Dcr)) (!
   (sized (GHOST d))
   :pattern ((sized (GHOST d)))
   :qid prelude_sized_decorate_ghost
   :skolemid skolem_prelude_sized_decorate_ghost
)))
(assert
 (forall ((d Dcr)) (!
   (sized (TRACKED d))
   :pattern ((sized (TRACKED d)))
   :qid prelude_sized_decorate_tracked
   :skolemid skolem_prelude_sized_decorate_tracked
)))
(assert
 (forall ((d Dcr)) (!
   (sized (NEVER d))
   :pattern ((sized (NEVER d)))
   :qid prelude_sized_decorate_never
   :skolemid skolem_prelude_sized_decorate_never
)))
(assert
 (forall ((d Dcr)) (!
   (sized (CONST_PTR d))
   :pattern ((sized (CONST_PTR d)))
   :qid prelude_sized_decorate_const_ptr
   :skolemid skolem_prelude_sized_decorate_const_ptr
)))
(assert
 (sized $)
)
(assert
 (forall ((i Int)) (!
   (= i (const_int (CONST_INT i)))
   :pattern ((CONST_INT i))
   :qid prelude_type_id_const_int
   :skolemid skolem_prelude_type_id_const_int
)))
(assert
 (forall ((b Bool)) (!
   (= b (const_bool (CONST_BOOL b)))
   :pattern ((CONST_BOOL b))
   :qid prelude_type_id_const_bool
   :skolemid skolem_prelude_type_id_const_bool
)))
(assert
 (forall ((b Bool)) (!
   (has_type (B b) BOOL)
   :pattern ((has_type (B b) BOOL))
   :qid prelude_has_type_bool
   :skolemid skolem_prelude_has_type_bool
)))
(assert
 (forall ((r Real)) (!
   (has_type (R r) REAL)
   :pattern ((has_type (R r) REAL))
   :qid prelude_has_type_real
   :skolemid skolem_prelude_has_type_real
)))
(assert
 (forall ((x Poly) (t Type)) (!
   (and
    (has_type (as_type x t) t)
    (=>
     (has_type x t)
     (= x (as_type x t))
   ))
   :pattern ((as_type x t))
   :qid prelude_as_type
   :skolemid skolem_prelude_as_type
)))
(assert
 (forall ((x %%Function%%)) (!
   (= (mk_fun x) x)
   :pattern ((mk_fun x))
   :qid prelude_mk_fun
   :skolemid skolem_prelude_mk_fun
)))
(assert
 (forall ((x Bool)) (!
   (= x (%B (B x)))
   :pattern ((B x))
   :qid prelude_unbox_box_bool
   :skolemid skolem_prelude_unbox_box_bool
)))
(assert
 (forall ((x Int)) (!
   (= x (%I (I x)))
   :pattern ((I x))
   :qid prelude_unbox_box_int
   :skolemid skolem_prelude_unbox_box_int
)))
(assert
 (forall ((x Real)) (!
   (= x (%R (R x)))
   :pattern ((R x))
   :qid prelude_unbox_box_real
   :skolemid skolem_prelude_unbox_box_real
)))
(assert
 (forall ((x Poly)) (!
   (=>
    (has_type x BOOL)
    (= x (B (%B x)))
   )
   :pattern ((has_type x BOOL))
   :qid prelude_box_unbox_bool
   :skolemid skolem_prelude_box_unbox_bool
)))
(assert
 (forall ((x Poly)) (!
   (=>
    (has_type x INT)
    (= x (I (%I x)))
   )
   :pattern ((has_type x INT))
   :qid prelude_box_unbox_int
   :skolemid skolem_prelude_box_unbox_int
)))
(assert
 (forall ((x Poly)) (!
   (=>
    (has_type x NAT)
    (= x (I (%I x)))
   )
   :pattern ((has_type x NAT))
   :qid prelude_box_unbox_nat
   :skolemid skolem_prelude_box_unbox_nat
)))
(assert
 (forall ((x Poly)) (!
   (=>
    (has_type x USIZE)
    (= x (I (%I x)))
   )
   :pattern ((has_type x USIZE))
   :qid prelude_box_unbox_usize
   :skolemid skolem_prelude_box_unbox_usize
)))
(assert
 (forall ((x Poly)) (!
   (=>
    (has_type x ISIZE)
    (= x (I (%I x)))
   )
   :pattern ((has_type x ISIZE))
   :qid prelude_box_unbox_isize
   :skolemid skolem_prelude_box_unbox_isize
)))
(assert
 (forall ((bits Int) (x Poly)) (!
   (=>
    (has_type x (UINT bits))
    (= x (I (%I x)))
   )
   :pattern ((has_type x (UINT bits)))
   :qid prelude_box_unbox_uint
   :skolemid skolem_prelude_box_unbox_uint
)))
(assert
 (forall ((bits Int) (x Poly)) (!
   (=>
    (has_type x (SINT bits))
    (= x (I (%I x)))
   )
   :pattern ((has_type x (SINT bits)))
   :qid prelude_box_unbox_sint
   :skolemid skolem_prelude_box_unbox_sint
)))
(assert
 (forall ((bits Int) (x Poly)) (!
   (=>
    (has_type x (FLOAT bits))
    (= x (I (%I x)))
   )
   :pattern ((has_type x (FLOAT bits)))
   :qid prelude_box_unbox_float
   :skolemid skolem_prelude_box_unbox_float
)))
(assert
 (forall ((x Poly)) (!
   (=>
    (has_type x CHAR)
    (= x (I (%I x)))
   )
   :pattern ((has_type x CHAR))
   :qid prelude_box_unbox_char
   :skolemid skolem_prelude_box_unbox_char
)))
(assert
 (forall ((x Poly)) (!
   (=>
    (has_type x REAL)
    (= x (R (%R x)))
   )
   :pattern ((has_type x REAL))
   :qid prelude_box_unbox_real
   :skolemid skolem_prelude_box_unbox_real
)))
(declare-fun ext_eq (Bool Type Poly Poly) Bool)
(assert
 (forall ((deep Bool) (t Type) (x Poly) (y Poly)) (!
   (= (= x y) (ext_eq deep t x y))
   :pattern ((ext_eq deep t x y))
   :qid prelude_ext_eq
   :skolemid skolem_prelude_ext_eq
)))
(declare-const SZ Int)
(assert
 (or
  (= SZ 32)
  (= SZ 64)
))
(declare-fun uHi (Int) Int)
(declare-fun iLo (Int) Int)
(declare-fun iHi (Int) Int)
(assert
 (= (uHi 8) 256)
)
(assert
 (= (uHi 16) 65536)
)
(assert
 (= (uHi 32) 4294967296)
)
(assert
 (= (uHi 64) 18446744073709551616)
)
(assert
 (= (uHi 128) (+ 1 340282366920938463463374607431768211455))
)
(assert
 (= (iLo 8) (- 128))
)
(assert
 (= (iLo 16) (- 32768))
)
(assert
 (= (iLo 32) (- 2147483648))
)
(assert
 (= (iLo 64) (- 9223372036854775808))
)
(assert
 (= (iLo 128) (- 170141183460469231731687303715884105728))
)
(assert
 (= (iHi 8) 128)
)
(assert
 (= (iHi 16) 32768)
)
(assert
 (= (iHi 32) 2147483648)
)
(assert
 (= (iHi 64) 9223372036854775808)
)
(assert
 (= (iHi 128) 170141183460469231731687303715884105728)
)
(declare-fun nClip (Int) Int)
(declare-fun uClip (Int Int) Int)
(declare-fun iClip (Int Int) Int)
(declare-fun charClip (Int) Int)
(assert
 (forall ((i Int)) (!
   (and
    (<= 0 (nClip i))
    (=>
     (<= 0 i)
     (= i (nClip i))
   ))
   :pattern ((nClip i))
   :qid prelude_nat_clip
   :skolemid skolem_prelude_nat_clip
)))
(assert
 (forall ((bits Int) (i Int)) (!
   (and
    (<= 0 (uClip bits i))
    (< (uClip bits i) (uHi bits))
    (=>
     (and
      (<= 0 i)
      (< i (uHi bits))
     )
     (= i (uClip bits i))
   ))
   :pattern ((uClip bits i))
   :qid prelude_u_clip
   :skolemid skolem_prelude_u_clip
)))
(assert
 (forall ((bits Int) (i Int)) (!
   (and
    (<= (iLo bits) (iClip bits i))
    (< (iClip bits i) (iHi bits))
    (=>
     (and
      (<= (iLo bits) i)
      (< i (iHi bits))
     )
     (= i (iClip bits i))
   ))
   :pattern ((iClip bits i))
   :qid prelude_i_clip
   :skolemid skolem_prelude_i_clip
)))
(assert
 (forall ((i Int)) (!
   (and
    (or
     (and
      (<= 0 (charClip i))
      (<= (charClip i) 55295)
     )
     (and
      (<= 57344 (charClip i))
      (<= (charClip i) 1114111)
    ))
    (=>
     (or
      (and
       (<= 0 i)
       (<= i 55295)
      )
      (and
       (<= 57344 i)
       (<= i 1114111)
     ))
     (= i (charClip i))
   ))
   :pattern ((charClip i))
   :qid prelude_char_clip
   :skolemid skolem_prelude_char_clip
)))
(declare-fun uInv (Int Int) Bool)
(declare-fun iInv (Int Int) Bool)
(declare-fun charInv (Int) Bool)
(assert
 (forall ((bits Int) (i Int)) (!
   (= (uInv bits i) (and
     (<= 0 i)
     (< i (uHi bits))
   ))
   :pattern ((uInv bits i))
   :qid prelude_u_inv
   :skolemid skolem_prelude_u_inv
)))
(assert
 (forall ((bits Int) (i Int)) (!
   (= (iInv bits i) (and
     (<= (iLo bits) i)
     (< i (iHi bits))
   ))
   :pattern ((iInv bits i))
   :qid prelude_i_inv
   :skolemid skolem_prelude_i_inv
)))
(assert
 (forall ((i Int)) (!
   (= (charInv i) (or
     (and
      (<= 0 i)
      (<= i 55295)
     )
     (and
      (<= 57344 i)
      (<= i 1114111)
   )))
   :pattern ((charInv i))
   :qid prelude_char_inv
   :skolemid skolem_prelude_char_inv
)))
(assert
 (forall ((x Int)) (!
   (has_type (I x) INT)
   :pattern ((has_type (I x) INT))
   :qid prelude_has_type_int
   :skolemid skolem_prelude_has_type_int
)))
(assert
 (forall ((x Int)) (!
   (=>
    (<= 0 x)
    (has_type (I x) NAT)
   )
   :pattern ((has_type (I x) NAT))
   :qid prelude_has_type_nat
   :skolemid skolem_prelude_has_type_nat
)))
(assert
 (forall ((x Int)) (!
   (=>
    (uInv SZ x)
    (has_type (I x) USIZE)
   )
   :pattern ((has_type (I x) USIZE))
   :qid prelude_has_type_usize
   :skolemid skolem_prelude_has_type_usize
)))
(assert
 (forall ((x Int)) (!
   (=>
    (iInv SZ x)
    (has_type (I x) ISIZE)
   )
   :pattern ((has_type (I x) ISIZE))
   :qid prelude_has_type_isize
   :skolemid skolem_prelude_has_type_isize
)))
(assert
 (forall ((bits Int) (x Int)) (!
   (=>
    (uInv bits x)
    (has_type (I x) (UINT bits))
   )
   :pattern ((has_type (I x) (UINT bits)))
   :qid prelude_has_type_uint
   :skolemid skolem_prelude_has_type_uint
)))
(assert
 (forall ((bits Int) (x Int)) (!
   (=>
    (iInv bits x)
    (has_type (I x) (SINT bits))
   )
   :pattern ((has_type (I x) (SINT bits)))
   :qid prelude_has_type_sint
   :skolemid skolem_prelude_has_type_sint
)))
(assert
 (forall ((bits Int) (x Int)) (!
   (=>
    (uInv bits x)
    (has_type (I x) (FLOAT bits))
   )
   :pattern ((has_type (I x) (FLOAT bits)))
   :qid prelude_has_type_float
   :skolemid skolem_prelude_has_type_float
)))
(assert
 (forall ((x Int)) (!
   (=>
    (charInv x)
    (has_type (I x) CHAR)
   )
   :pattern ((has_type (I x) CHAR))
   :qid prelude_has_type_char
   :skolemid skolem_prelude_has_type_char
)))
(assert
 (forall ((x Poly)) (!
   (=>
    (has_type x NAT)
    (<= 0 (%I x))
   )
   :pattern ((has_type x NAT))
   :qid prelude_unbox_int
   :skolemid skolem_prelude_unbox_int
)))
(assert
 (forall ((x Poly)) (!
   (=>
    (has_type x USIZE)
    (uInv SZ (%I x))
   )
   :pattern ((has_type x USIZE))
   :qid prelude_unbox_usize
   :skolemid skolem_prelude_unbox_usize
)))
(assert
 (forall ((x Poly)) (!
   (=>
    (has_type x CHAR)
    (charInv (%I x))
   )
   :pattern ((has_type x CHAR))
   :qid prelude_unbox_char
   :skolemid skolem_prelude_unbox_char
)))
(assert
 (forall ((x Poly)) (!
   (=>
    (has_type x ISIZE)
    (iInv SZ (%I x))
   )
   :pattern ((has_type x ISIZE))
   :qid prelude_unbox_isize
   :skolemid skolem_prelude_unbox_isize
)))
(assert
 (forall ((bits Int) (x Poly)) (!
   (=>
    (has_type x (UINT bits))
    (uInv bits (%I x))
   )
   :pattern ((has_type x (UINT bits)))
   :qid prelude_unbox_uint
   :skolemid skolem_prelude_unbox_uint
)))
(assert
 (forall ((bits Int) (x Poly)) (!
   (=>
    (has_type x (SINT bits))
    (iInv bits (%I x))
   )
   :pattern ((has_type x (SINT bits)))
   :qid prelude_unbox_sint
   :skolemid skolem_prelude_unbox_sint
)))
(assert
 (forall ((bits Int) (x Poly)) (!
   (=>
    (has_type x (FLOAT bits))
    (uInv bits (%I x))
   )
   :pattern ((has_type x (FLOAT bits)))
   :qid prelude_unbox_float
   :skolemid skolem_prelude_unbox_float
)))
(declare-fun Add (Int Int) Int)
(declare-fun Sub (Int Int) Int)
(declare-fun Mul (Int Int) Int)
(declare-fun EucDiv (Int Int) Int)
(declare-fun EucMod (Int Int) Int)
(declare-fun RAdd (Real Real) Real)
(declare-fun RSub (Real Real) Real)
(declare-fun RMul (Real Real) Real)
(declare-fun RDiv (Real Real) Real)
(assert
 (forall ((x Int) (y Int)) (!
   (= (Add x y) (+ x y))
   :pattern ((Add x y))
   :qid prelude_add
   :skolemid skolem_prelude_add
)))
(assert
 (forall ((x Int) (y Int)) (!
   (= (Sub x y) (- x y))
   :pattern ((Sub x y))
   :qid prelude_sub
   :skolemid skolem_prelude_sub
)))
(assert
 (forall ((x Int) (y Int)) (!
   (= (Mul x y) (* x y))
   :pattern ((Mul x y))
   :qid prelude_mul
   :skolemid skolem_prelude_mul
)))
(assert
 (forall ((x Int) (y Int)) (!
   (= (EucDiv x y) (div x y))
   :pattern ((EucDiv x y))
   :qid prelude_eucdiv
   :skolemid skolem_prelude_eucdiv
)))
(assert
 (forall ((x Int) (y Int)) (!
   (= (EucMod x y) (mod x y))
   :pattern ((EucMod x y))
   :qid prelude_eucmod
   :skolemid skolem_prelude_eucmod
)))
(assert
 (forall ((x Real) (y Real)) (!
   (= (RAdd x y) (+ x y))
   :pattern ((RAdd x y))
   :qid prelude_radd
   :skolemid skolem_prelude_radd
)))
(assert
 (forall ((x Real) (y Real)) (!
   (= (RSub x y) (- x y))
   :pattern ((RSub x y))
   :qid prelude_rsub
   :skolemid skolem_prelude_rsub
)))
(assert
 (forall ((x Real) (y Real)) (!
   (= (RMul x y) (* x y))
   :pattern ((RMul x y))
   :qid prelude_rmul
   :skolemid skolem_prelude_rmul
)))
(assert
 (forall ((x Real) (y Real)) (!
   (= (RDiv x y) (/ x y))
   :pattern ((RDiv x y))
   :qid prelude_rdiv
   :skolemid skolem_prelude_rdiv
)))
(assert
 (forall ((x Int) (y Int)) (!
   (=>
    (and
     (<= 0 x)
     (<= 0 y)
    )
    (<= 0 (Mul x y))
   )
   :pattern ((Mul x y))
   :qid prelude_mul_nats
   :skolemid skolem_prelude_mul_nats
)))
(assert
 (forall ((x Int) (y Int)) (!
   (=>
    (and
     (<= 0 x)
     (< 0 y)
    )
    (and
     (<= 0 (EucDiv x y))
     (<= (EucDiv x y) x)
   ))
   :pattern ((EucDiv x y))
   :qid prelude_div_unsigned_in_bounds
   :skolemid skolem_prelude_div_unsigned_in_bounds
)))
(assert
 (forall ((x Int) (y Int)) (!
   (=>
    (and
     (<= 0 x)
     (< 0 y)
    )
    (and
     (<= 0 (EucMod x y))
     (< (EucMod x y) y)
   ))
   :pattern ((EucMod x y))
   :qid prelude_mod_unsigned_in_bounds
   :skolemid skolem_prelude_mod_unsigned_in_bounds
)))
(declare-fun bitxor (Poly Poly) Int)
(declare-fun bitand (Poly Poly) Int)
(declare-fun bitor (Poly Poly) Int)
(declare-fun bitshr (Poly Poly) Int)
(declare-fun bitshl (Poly Poly) Int)
(declare-fun bitnot (Poly) Int)
(assert
 (forall ((x Poly) (y Poly) (bits Int)) (!
   (=>
    (and
     (uInv bits (%I x))
     (uInv bits (%I y))
    )
    (uInv bits (bitxor x y))
   )
   :pattern ((uClip bits (bitxor x y)))
   :qid prelude_bit_xor_u_inv
   :skolemid skolem_prelude_bit_xor_u_inv
)))
(assert
 (forall ((x Poly) (y Poly) (bits Int)) (!
   (=>
    (and
     (iInv bits (%I x))
     (iInv bits (%I y))
    )
    (iInv bits (bitxor x y))
   )
   :pattern ((iClip bits (bitxor x y)))
   :qid prelude_bit_xor_i_inv
   :skolemid skolem_prelude_bit_xor_i_inv
)))
(assert
 (forall ((x Poly) (y Poly) (bits Int)) (!
   (=>
    (and
     (uInv bits (%I x))
     (uInv bits (%I y))
    )
    (uInv bits (bitor x y))
   )
   :pattern ((uClip bits (bitor x y)))
   :qid prelude_bit_or_u_inv
   :skolemid skolem_prelude_bit_or_u_inv
)))
(assert
 (forall ((x Poly) (y Poly) (bits Int)) (!
   (=>
    (and
     (iInv bits (%I x))
     (iInv bits (%I y))
    )
    (iInv bits (bitor x y))
   )
   :pattern ((iClip bits (bitor x y)))
   :qid prelude_bit_or_i_inv
   :skolemid skolem_prelude_bit_or_i_inv
)))
(assert
 (forall ((x Poly) (y Poly) (bits Int)) (!
   (=>
    (and
     (uInv bits (%I x))
     (uInv bits (%I y))
    )
    (uInv bits (bitand x y))
   )
   :pattern ((uClip bits (bitand x y)))
   :qid prelude_bit_and_u_inv
   :skolemid skolem_prelude_bit_and_u_inv
)))
(assert
 (forall ((x Poly) (y Poly) (bits Int)) (!
   (=>
    (and
     (iInv bits (%I x))
     (iInv bits (%I y))
    )
    (iInv bits (bitand x y))
   )
   :pattern ((iClip bits (bitand x y)))
   :qid prelude_bit_and_i_inv
   :skolemid skolem_prelude_bit_and_i_inv
)))
(assert
 (forall ((x Poly) (y Poly) (bits Int)) (!
   (=>
    (and
     (uInv bits (%I x))
     (<= 0 (%I y))
    )
    (uInv bits (bitshr x y))
   )
   :pattern ((uClip bits (bitshr x y)))
   :qid prelude_bit_shr_u_inv
   :skolemid skolem_prelude_bit_shr_u_inv
)))
(assert
 (forall ((x Poly) (y Poly) (bits Int)) (!
   (=>
    (and
     (iInv bits (%I x))
     (<= 0 (%I y))
    )
    (iInv bits (bitshr x y))
   )
   :pattern ((iClip bits (bitshr x y)))
   :qid prelude_bit_shr_i_inv
   :skolemid skolem_prelude_bit_shr_i_inv
)))
(declare-fun singular_mod (Int Int) Int)
(assert
 (forall ((x Int) (y Int)) (!
   (=>
    (not (= y 0))
    (= (EucMod x y) (singular_mod x y))
   )
   :pattern ((singular_mod x y))
   :qid prelude_singularmod
   :skolemid skolem_prelude_singularmod
)))
(declare-fun has_resolved (Dcr Type Poly) Bool)
(declare-fun closure_req (Type Dcr Type Poly Poly) Bool)
(declare-fun closure_ens (Type Dcr Type Poly Poly Poly) Bool)
(declare-fun default_ens (Type Dcr Type Poly Poly Poly) Bool)
(declare-fun height (Poly) Height)
(declare-fun height_lt (Height Height) Bool)
(declare-fun fun_from_recursive_field (Poly) Poly)
(declare-fun check_decrease_height (Poly Poly Bool) Bool)
(assert
 (forall ((cur Poly) (prev Poly) (otherwise Bool)) (!
   (= (check_decrease_height cur prev otherwise) (or
     (height_lt (height cur) (height prev))
     (and
      (= (height cur) (height prev))
      otherwise
   )))
   :pattern ((check_decrease_height cur prev otherwise))
   :qid prelude_check_decrease_height
   :skolemid skolem_prelude_check_decrease_height
)))
(assert
 (forall ((cur Int) (prev Int)) (!
   (= (height_lt (height (I cur)) (height (I prev))) (and
     (<= 0 cur)
     (< cur prev)
   ))
   :pattern ((height_lt (height (I cur)) (height (I prev))))
   :qid prelude_check_decrease_int_height
   :skolemid skolem_prelude_check_decrease_int_height
)))
(assert
 (forall ((x Height) (y Height)) (!
   (= (height_lt x y) (and
     ((_ partial-order 0) x y)
     (not (= x y))
   ))
   :pattern ((height_lt x y))
   :qid prelude_height_lt
   :skolemid skolem_prelude_height_lt
)))

;; MODULE 'root module'

;; Fuel
(declare-const fuel%vstd!arithmetic.div_mod.rust_div. FuelId)
(declare-const fuel%vstd!arithmetic.div_mod.rust_rem. FuelId)
(declare-const fuel%vstd!std_specs.ops.impl&%129.obeys_div_spec. FuelId)
(declare-const fuel%vstd!std_specs.ops.impl&%129.div_req. FuelId)
(declare-const fuel%vstd!std_specs.ops.impl&%129.div_spec. FuelId)
(declare-const fuel%vstd!std_specs.ops.impl&%153.obeys_rem_spec. FuelId)
(declare-const fuel%vstd!std_specs.ops.impl&%153.rem_req. FuelId)
(declare-const fuel%vstd!std_specs.ops.impl&%153.rem_spec. FuelId)
(declare-const fuel%vstd!function.axiom_fn_mut_call_requires. FuelId)
(declare-const fuel%vstd!function.axiom_fn_mut_call_ensures. FuelId)
(declare-const fuel%vstd!array.group_array_axioms. FuelId)
(declare-const fuel%vstd!function.group_function_axioms. FuelId)
(declare-const fuel%vstd!imap.group_imap_lemmas. FuelId)
(declare-const fuel%vstd!iset.group_iset_lemmas. FuelId)
(declare-const fuel%vstd!laws_cmp.group_laws_cmp. FuelId)
(declare-const fuel%vstd!laws_eq.bool_laws.group_laws_eq. FuelId)
(declare-const fuel%vstd!laws_eq.u8_laws.group_laws_eq. FuelId)
(declare-const fuel%vstd!laws_eq.i8_laws.group_laws_eq. FuelId)
(declare-const fuel%vstd!laws_eq.u16_laws.group_laws_eq. FuelId)
(declare-const fuel%vstd!laws_eq.i16_laws.group_laws_eq. FuelId)
(declare-const fuel%vstd!laws_eq.u32_laws.group_laws_eq. FuelId)
(declare-const fuel%vstd!laws_eq.i32_laws.group_laws_eq. FuelId)
(declare-const fuel%vstd!laws_eq.u64_laws.group_laws_eq. FuelId)
(declare-const fuel%vstd!laws_eq.i64_laws.group_laws_eq. FuelId)
(declare-const fuel%vstd!laws_eq.u128_laws.group_laws_eq. FuelId)
(declare-const fuel%vstd!laws_eq.i128_laws.group_laws_eq. FuelId)
(declare-const fuel%vstd!laws_eq.usize_laws.group_laws_eq. FuelId)
(declare-const fuel%vstd!laws_eq.isize_laws.group_laws_eq. FuelId)
(declare-const fuel%vstd!laws_eq.tuple_1_laws.group_laws_eq. FuelId)
(declare-const fuel%vstd!laws_eq.tuple_2_laws.group_laws_eq. FuelId)
(declare-const fuel%vstd!laws_eq.tuple_3_laws.group_laws_eq. FuelId)
(declare-const fuel%vstd!laws_eq.tuple_4_laws.group_laws_eq. FuelId)
(declare-const fuel%vstd!laws_eq.tuple_5_laws.group_laws_eq. FuelId)
(declare-const fuel%vstd!laws_eq.tuple_6_laws.group_laws_eq. FuelId)
(declare-const fuel%vstd!laws_eq.tuple_7_laws.group_laws_eq. FuelId)
(declare-const fuel%vstd!laws_eq.tuple_8_laws.group_laws_eq. FuelId)
(declare-const fuel%vstd!laws_eq.tuple_9_laws.group_laws_eq. FuelId)
(declare-const fuel%vstd!laws_eq.tuple_10_laws.group_laws_eq. FuelId)
(declare-const fuel%vstd!laws_eq.tuple_11_laws.group_laws_eq. FuelId)
(declare-const fuel%vstd!laws_eq.tuple_12_laws.group_laws_eq. FuelId)
(declare-const fuel%vstd!laws_eq.group_laws_eq. FuelId)
(declare-const fuel%vstd!layout.group_align_properties. FuelId)
(declare-const fuel%vstd!layout.group_layout_axioms. FuelId)
(declare-const fuel%vstd!map.group_map_lemmas. FuelId)
(declare-const fuel%vstd!multiset.group_multiset_axioms. FuelId)
(declare-const fuel%vstd!mut_ref.group_mut_ref_axioms. FuelId)
(declare-const fuel%vstd!raw_ptr.group_raw_ptr_axioms. FuelId)
(declare-const fuel%vstd!seq.group_seq_lemmas. FuelId)
(declare-const fuel%vstd!seq_lib.group_filter_ensures. FuelId)
(declare-const fuel%vstd!seq_lib.group_seq_lib_default. FuelId)
(declare-const fuel%vstd!set.group_set_lemmas. FuelId)
(declare-const fuel%vstd!set_lib.group_set_lib_default. FuelId)
(declare-const fuel%vstd!slice.group_slice_axioms. FuelId)
(declare-const fuel%vstd!string.group_string_axioms. FuelId)
(declare-const fuel%vstd!std_specs.bits.group_bits_axioms. FuelId)
(declare-const fuel%vstd!std_specs.control_flow.group_control_flow_axioms. FuelId)
(declare-const fuel%vstd!std_specs.fmt.group_fmt_axioms. FuelId)
(declare-const fuel%vstd!std_specs.iter.group_iter_axioms. FuelId)
(declare-const fuel%vstd!std_specs.manually_drop.group_manually_drop_axioms. FuelId)
(declare-const fuel%vstd!std_specs.btree.group_btree_axioms. FuelId)
(declare-const fuel%vstd!std_specs.hash.group_hash_axioms. FuelId)
(declare-const fuel%vstd!std_specs.range.group_range_axioms. FuelId)
(declare-const fuel%vstd!std_specs.vec.group_vec_axioms. FuelId)
(declare-const fuel%vstd!std_specs.vecdeque.group_vec_dequeue_axioms. FuelId)
(declare-const fuel%vstd!std_specs.nonzero.group_nonzero_axioms. FuelId)
(declare-const fuel%vstd!group_vstd_default. FuelId)
(assert
 (distinct fuel%vstd!arithmetic.div_mod.rust_div. fuel%vstd!arithmetic.div_mod.rust_rem.
  fuel%vstd!std_specs.ops.impl&%129.obeys_div_spec. fuel%vstd!std_specs.ops.impl&%129.div_req.
  fuel%vstd!std_specs.ops.impl&%129.div_spec. fuel%vstd!std_specs.ops.impl&%153.obeys_rem_spec.
  fuel%vstd!std_specs.ops.impl&%153.rem_req. fuel%vstd!std_specs.ops.impl&%153.rem_spec.
  fuel%vstd!function.axiom_fn_mut_call_requires. fuel%vstd!function.axiom_fn_mut_call_ensures.
  fuel%vstd!array.group_array_axioms. fuel%vstd!function.group_function_axioms. fuel%vstd!imap.group_imap_lemmas.
  fuel%vstd!iset.group_iset_lemmas. fuel%vstd!laws_cmp.group_laws_cmp. fuel%vstd!laws_eq.bool_laws.group_laws_eq.
  fuel%vstd!laws_eq.u8_laws.group_laws_eq. fuel%vstd!laws_eq.i8_laws.group_laws_eq.
  fuel%vstd!laws_eq.u16_laws.group_laws_eq. fuel%vstd!laws_eq.i16_laws.group_laws_eq.
  fuel%vstd!laws_eq.u32_laws.group_laws_eq. fuel%vstd!laws_eq.i32_laws.group_laws_eq.
  fuel%vstd!laws_eq.u64_laws.group_laws_eq. fuel%vstd!laws_eq.i64_laws.group_laws_eq.
  fuel%vstd!laws_eq.u128_laws.group_laws_eq. fuel%vstd!laws_eq.i128_laws.group_laws_eq.
  fuel%vstd!laws_eq.usize_laws.group_laws_eq. fuel%vstd!laws_eq.isize_laws.group_laws_eq.
  fuel%vstd!laws_eq.tuple_1_laws.group_laws_eq. fuel%vstd!laws_eq.tuple_2_laws.group_laws_eq.
  fuel%vstd!laws_eq.tuple_3_laws.group_laws_eq. fuel%vstd!laws_eq.tuple_4_laws.group_laws_eq.
  fuel%vstd!laws_eq.tuple_5_laws.group_laws_eq. fuel%vstd!laws_eq.tuple_6_laws.group_laws_eq.
  fuel%vstd!laws_eq.tuple_7_laws.group_laws_eq. fuel%vstd!laws_eq.tuple_8_laws.group_laws_eq.
  fuel%vstd!laws_eq.tuple_9_laws.group_laws_eq. fuel%vstd!laws_eq.tuple_10_laws.group_laws_eq.
  fuel%vstd!laws_eq.tuple_11_laws.group_laws_eq. fuel%vstd!laws_eq.tuple_12_laws.group_laws_eq.
  fuel%vstd!laws_eq.group_laws_eq. fuel%vstd!layout.group_align_properties. fuel%vstd!layout.group_layout_axioms.
  fuel%vstd!map.group_map_lemmas. fuel%vstd!multiset.group_multiset_axioms. fuel%vstd!mut_ref.group_mut_ref_axioms.
  fuel%vstd!raw_ptr.group_raw_ptr_axioms. fuel%vstd!seq.group_seq_lemmas. fuel%vstd!seq_lib.group_filter_ensures.
  fuel%vstd!seq_lib.group_seq_lib_default. fuel%vstd!set.group_set_lemmas. fuel%vstd!set_lib.group_set_lib_default.
  fuel%vstd!slice.group_slice_axioms. fuel%vstd!string.group_string_axioms. fuel%vstd!std_specs.bits.group_bits_axioms.
  fuel%vstd!std_specs.control_flow.group_control_flow_axioms. fuel%vstd!std_specs.fmt.group_fmt_axioms.
  fuel%vstd!std_specs.iter.group_iter_axioms. fuel%vstd!std_specs.manually_drop.group_manually_drop_axioms.
  fuel%vstd!std_specs.btree.group_btree_axioms. fuel%vstd!std_specs.hash.group_hash_axioms.
  fuel%vstd!std_specs.range.group_range_axioms. fuel%vstd!std_specs.vec.group_vec_axioms.
  fuel%vstd!std_specs.vecdeque.group_vec_dequeue_axioms. fuel%vstd!std_specs.nonzero.group_nonzero_axioms.
  fuel%vstd!group_vstd_default.
))
(assert
 (=>
  (fuel_bool_default fuel%vstd!function.group_function_axioms.)
  (and
   (fuel_bool_default fuel%vstd!function.axiom_fn_mut_call_requires.)
   (fuel_bool_default fuel%vstd!function.axiom_fn_mut_call_ensures.)
)))
(assert
 (=>
  (fuel_bool_default fuel%vstd!laws_eq.group_laws_eq.)
  (and
   (fuel_bool_default fuel%vstd!laws_eq.bool_laws.group_laws_eq.)
   (fuel_bool_default fuel%vstd!laws_eq.u8_laws.group_laws_eq.)
   (fuel_bool_default fuel%vstd!laws_eq.i8_laws.group_laws_eq.)
   (fuel_bool_default fuel%vstd!laws_eq.u16_laws.group_laws_eq.)
   (fuel_bool_default fuel%vstd!laws_eq.i16_laws.group_laws_eq.)
   (fuel_bool_default fuel%vstd!laws_eq.u32_laws.group_laws_eq.)
   (fuel_bool_default fuel%vstd!laws_eq.i32_laws.group_laws_eq.)
   (fuel_bool_default fuel%vstd!laws_eq.u64_laws.group_laws_eq.)
   (fuel_bool_default fuel%vstd!laws_eq.i64_laws.group_laws_eq.)
   (fuel_bool_default fuel%vstd!laws_eq.u128_laws.group_laws_eq.)
   (fuel_bool_default fuel%vstd!laws_eq.i128_laws.group_laws_eq.)
   (fuel_bool_default fuel%vstd!laws_eq.usize_laws.group_laws_eq.)
   (fuel_bool_default fuel%vstd!laws_eq.isize_laws.group_laws_eq.)
   (fuel_bool_default fuel%vstd!laws_eq.tuple_1_laws.group_laws_eq.)
   (fuel_bool_default fuel%vstd!laws_eq.tuple_2_laws.group_laws_eq.)
   (fuel_bool_default fuel%vstd!laws_eq.tuple_3_laws.group_laws_eq.)
   (fuel_bool_default fuel%vstd!laws_eq.tuple_4_laws.group_laws_eq.)
   (fuel_bool_default fuel%vstd!laws_eq.tuple_5_laws.group_laws_eq.)
   (fuel_bool_default fuel%vstd!laws_eq.tuple_6_laws.group_laws_eq.)
   (fuel_bool_default fuel%vstd!laws_eq.tuple_7_laws.group_laws_eq.)
   (fuel_bool_default fuel%vstd!laws_eq.tuple_8_laws.group_laws_eq.)
   (fuel_bool_default fuel%vstd!laws_eq.tuple_9_laws.group_laws_eq.)
   (fuel_bool_default fuel%vstd!laws_eq.tuple_10_laws.group_laws_eq.)
   (fuel_bool_default fuel%vstd!laws_eq.tuple_11_laws.group_laws_eq.)
   (fuel_bool_default fuel%vstd!laws_eq.tuple_12_laws.group_laws_eq.)
)))
(assert
 (=>
  (fuel_bool_default fuel%vstd!layout.group_layout_axioms.)
  (fuel_bool_default fuel%vstd!layout.group_align_properties.)
))
(assert
 (=>
  (fuel_bool_default fuel%vstd!seq_lib.group_seq_lib_default.)
  (fuel_bool_default fuel%vstd!seq_lib.group_filter_ensures.)
))
(assert
 (fuel_bool_default fuel%vstd!group_vstd_default.)
)
(assert
 (=>
  (fuel_bool_default fuel%vstd!group_vstd_default.)
  (and
   (fuel_bool_default fuel%vstd!seq.group_seq_lemmas.)
   (fuel_bool_default fuel%vstd!seq_lib.group_seq_lib_default.)
   (fuel_bool_default fuel%vstd!map.group_map_lemmas.)
   (fuel_bool_default fuel%vstd!set.group_set_lemmas.)
   (fuel_bool_default fuel%vstd!imap.group_imap_lemmas.)
   (fuel_bool_default fuel%vstd!iset.group_iset_lemmas.)
   (fuel_bool_default fuel%vstd!set_lib.group_set_lib_default.)
   (fuel_bool_default fuel%vstd!multiset.group_multiset_axioms.)
   (fuel_bool_default fuel%vstd!function.group_function_axioms.)
   (fuel_bool_default fuel%vstd!laws_eq.group_laws_eq.)
   (fuel_bool_default fuel%vstd!laws_cmp.group_laws_cmp.)
   (fuel_bool_default fuel%vstd!slice.group_slice_axioms.)
   (fuel_bool_default fuel%vstd!array.group_array_axioms.)
   (fuel_bool_default fuel%vstd!string.group_string_axioms.)
   (fuel_bool_default fuel%vstd!raw_ptr.group_raw_ptr_axioms.)
   (fuel_bool_default fuel%vstd!layout.group_layout_axioms.)
   (fuel_bool_default fuel%vstd!mut_ref.group_mut_ref_axioms.)
   (fuel_bool_default fuel%vstd!std_specs.range.group_range_axioms.)
   (fuel_bool_default fuel%vstd!std_specs.bits.group_bits_axioms.)
   (fuel_bool_default fuel%vstd!std_specs.control_flow.group_control_flow_axioms.)
   (fuel_bool_default fuel%vstd!std_specs.fmt.group_fmt_axioms.)
   (fuel_bool_default fuel%vstd!std_specs.manually_drop.group_manually_drop_axioms.)
   (fuel_bool_default fuel%vstd!std_specs.iter.group_iter_axioms.)
   (fuel_bool_default fuel%vstd!std_specs.vec.group_vec_axioms.)
   (fuel_bool_default fuel%vstd!std_specs.vecdeque.group_vec_dequeue_axioms.)
   (fuel_bool_default fuel%vstd!std_specs.hash.group_hash_axioms.)
   (fuel_bool_default fuel%vstd!std_specs.btree.group_btree_axioms.)
   (fuel_bool_default fuel%vstd!std_specs.nonzero.group_nonzero_axioms.)
)))

;; Trait-Decls
(declare-fun tr_bound%core!marker.Tuple. (Dcr Type) Bool)
(declare-fun tr_bound%core!ops.function.FnOnce. (Dcr Type Dcr Type) Bool)
(declare-fun tr_bound%core!ops.function.FnMut. (Dcr Type Dcr Type) Bool)
(declare-fun tr_bound%core!ops.function.Fn. (Dcr Type Dcr Type) Bool)
(declare-fun tr_bound%core!alloc.Allocator. (Dcr Type) Bool)
(declare-fun tr_bound%core!ops.arith.Div. (Dcr Type Dcr Type) Bool)
(declare-fun tr_bound%vstd!std_specs.ops.DivSpec. (Dcr Type Dcr Type) Bool)
(declare-fun tr_bound%core!ops.arith.Rem. (Dcr Type Dcr Type) Bool)
(declare-fun tr_bound%vstd!std_specs.ops.RemSpec. (Dcr Type Dcr Type) Bool)

;; Associated-Type-Decls
(declare-fun proj%%core!ops.function.FnOnce./Output (Dcr Type Dcr Type) Dcr)
(declare-fun proj%core!ops.function.FnOnce./Output (Dcr Type Dcr Type) Type)
(declare-fun proj%%core!ops.arith.Div./Output (Dcr Type Dcr Type) Dcr)
(declare-fun proj%core!ops.arith.Div./Output (Dcr Type Dcr Type) Type)
(declare-fun proj%%core!ops.arith.Rem./Output (Dcr Type Dcr Type) Dcr)
(declare-fun proj%core!ops.arith.Rem./Output (Dcr Type Dcr Type) Type)

;; Datatypes
(declare-datatypes ((tuple%0. 0)) (((tuple%0./tuple%0))))
(declare-fun Poly%tuple%0. (tuple%0.) Poly)
(declare-fun %Poly%tuple%0. (Poly) tuple%0.)
(assert
 (forall ((x tuple%0.)) (!
   (= x (%Poly%tuple%0. (Poly%tuple%0. x)))
   :pattern ((Poly%tuple%0. x))
   :qid internal_crate__tuple__0_box_axiom_definition
   :skolemid skolem_internal_crate__tuple__0_box_axiom_definition
)))
(assert
 (forall ((x Poly)) (!
   (=>
    (has_type x TYPE%tuple%0.)
    (= x (Poly%tuple%0. (%Poly%tuple%0. x)))
   )
   :pattern ((has_type x TYPE%tuple%0.))
   :qid internal_crate__tuple__0_unbox_axiom_definition
   :skolemid skolem_internal_crate__tuple__0_unbox_axiom_definition
)))
(assert
 (forall ((x tuple%0.)) (!
   (has_type (Poly%tuple%0. x) TYPE%tuple%0.)
   :pattern ((has_type (Poly%tuple%0. x) TYPE%tuple%0.))
   :qid internal_crate__tuple__0_has_type_always_definition
   :skolemid skolem_internal_crate__tuple__0_has_type_always_definition
)))

;; Trait-Bounds
(assert
 (forall ((Self%&. Dcr) (Self%& Type)) (!
   true
   :pattern ((tr_bound%core!marker.Tuple. Self%&. Self%&))
   :qid internal_core__marker__Tuple_trait_type_bounds_definition
   :skolemid skolem_internal_core__marker__Tuple_trait_type_bounds_definition
)))
(assert
 (forall ((Self%&. Dcr) (Self%& Type) (Args&. Dcr) (Args& Type)) (!
   (=>
    (tr_bound%core!ops.function.FnOnce. Self%&. Self%& Args&. Args&)
    (and
     (sized Args&.)
     (tr_bound%core!marker.Tuple. Args&. Args&)
     (sized (proj%%core!ops.function.FnOnce./Output Self%&. Self%& Args&. Args&))
   ))
   :pattern ((tr_bound%core!ops.function.FnOnce. Self%&. Self%& Args&. Args&))
   :qid internal_core__ops__function__FnOnce_trait_type_bounds_definition
   :skolemid skolem_internal_core__ops__function__FnOnce_trait_type_bounds_definition
)))
(assert
 (forall ((Self%&. Dcr) (Self%& Type) (Args&. Dcr) (Args& Type)) (!
   (=>
    (tr_bound%core!ops.function.FnMut. Self%&. Self%& Args&. Args&)
    (and
     (tr_bound%core!ops.function.FnOnce. Self%&. Self%& Args&. Args&)
     (sized Args&.)
     (tr_bound%core!marker.Tuple. Args&. Args&)
   ))
   :pattern ((tr_bound%core!ops.function.FnMut. Self%&. Self%& Args&. Args&))
   :qid internal_core__ops__function__FnMut_trait_type_bounds_definition
   :skolemid skolem_internal_core__ops__function__FnMut_trait_type_bounds_definition
)))
(assert
 (forall ((Self%&. Dcr) (Self%& Type) (Args&. Dcr) (Args& Type)) (!
   (=>
    (tr_bound%core!ops.function.Fn. Self%&. Self%& Args&. Args&)
    (and
     (tr_bound%core!ops.function.FnMut. Self%&. Self%& Args&. Args&)
     (sized Args&.)
     (tr_bound%core!marker.Tuple. Args&. Args&)
   ))
   :pattern ((tr_bound%core!ops.function.Fn. Self%&. Self%& Args&. Args&))
   :qid internal_core__ops__function__Fn_trait_type_bounds_definition
   :skolemid skolem_internal_core__ops__function__Fn_trait_type_bounds_definition
)))
(assert
 (forall ((Self%&. Dcr) (Self%& Type)) (!
   true
   :pattern ((tr_bound%core!alloc.Allocator. Self%&. Self%&))
   :qid internal_core__alloc__Allocator_trait_type_bounds_definition
   :skolemid skolem_internal_core__alloc__Allocator_trait_type_bounds_definition
)))
(assert
 (forall ((Self%&. Dcr) (Self%& Type) (Rhs&. Dcr) (Rhs& Type)) (!
   (=>
    (tr_bound%core!ops.arith.Div. Self%&. Self%& Rhs&. Rhs&)
    (and
     (sized Rhs&.)
     (sized (proj%%core!ops.arith.Div./Output Self%&. Self%& Rhs&. Rhs&))
   ))
   :pattern ((tr_bound%core!ops.arith.Div. Self%&. Self%& Rhs&. Rhs&))
   :qid internal_core__ops__arith__Div_trait_type_bounds_definition
   :skolemid skolem_internal_core__ops__arith__Div_trait_type_bounds_definition
)))
(assert
 (forall ((Self%&. Dcr) (Self%& Type) (Rhs&. Dcr) (Rhs& Type)) (!
   (=>
    (tr_bound%vstd!std_specs.ops.DivSpec. Self%&. Self%& Rhs&. Rhs&)
    (and
     (tr_bound%core!ops.arith.Div. Self%&. Self%& Rhs&. Rhs&)
     (sized Rhs&.)
   ))
   :pattern ((tr_bound%vstd!std_specs.ops.DivSpec. Self%&. Self%& Rhs&. Rhs&))
   :qid internal_vstd__std_specs__ops__DivSpec_trait_type_bounds_definition
   :skolemid skolem_internal_vstd__std_specs__ops__DivSpec_trait_type_bounds_definition
)))
(assert
 (forall ((Self%&. Dcr) (Self%& Type) (Rhs&. Dcr) (Rhs& Type)) (!
   (=>
    (tr_bound%core!ops.arith.Rem. Self%&. Self%& Rhs&. Rhs&)
    (and
     (sized Rhs&.)
     (sized (proj%%core!ops.arith.Rem./Output Self%&. Self%& Rhs&. Rhs&))
   ))
   :pattern ((tr_bound%core!ops.arith.Rem. Self%&. Self%& Rhs&. Rhs&))
   :qid internal_core__ops__arith__Rem_trait_type_bounds_definition
   :skolemid skolem_internal_core__ops__arith__Rem_trait_type_bounds_definition
)))
(assert
 (forall ((Self%&. Dcr) (Self%& Type) (Rhs&. Dcr) (Rhs& Type)) (!
   (=>
    (tr_bound%vstd!std_specs.ops.RemSpec. Self%&. Self%& Rhs&. Rhs&)
    (and
     (tr_bound%core!ops.arith.Rem. Self%&. Self%& Rhs&. Rhs&)
     (sized Rhs&.)
   ))
   :pattern ((tr_bound%vstd!std_specs.ops.RemSpec. Self%&. Self%& Rhs&. Rhs&))
   :qid internal_vstd__std_specs__ops__RemSpec_trait_type_bounds_definition
   :skolemid skolem_internal_vstd__std_specs__ops__RemSpec_trait_type_bounds_definition
)))

;; Associated-Type-Impls
(assert
 (= (proj%%core!ops.arith.Div./Output (REF $) (SINT 64) $ (SINT 64)) $)
)
(assert
 (= (proj%core!ops.arith.Div./Output (REF $) (SINT 64) $ (SINT 64)) (SINT 64))
)
(assert
 (= (proj%%core!ops.arith.Div./Output (REF $) (SINT 64) (REF $) (SINT 64)) $)
)
(assert
 (= (proj%core!ops.arith.Div./Output (REF $) (SINT 64) (REF $) (SINT 64)) (SINT 64))
)
(assert
 (= (proj%%core!ops.arith.Div./Output $ (SINT 64) $ (SINT 64)) $)
)
(assert
 (= (proj%core!ops.arith.Div./Output $ (SINT 64) $ (SINT 64)) (SINT 64))
)
(assert
 (= (proj%%core!ops.arith.Div./Output $ (SINT 64) (REF $) (SINT 64)) $)
)
(assert
 (= (proj%core!ops.arith.Div./Output $ (SINT 64) (REF $) (SINT 64)) (SINT 64))
)
(assert
 (= (proj%%core!ops.arith.Div./Output $ INT $ INT) $)
)
(assert
 (= (proj%core!ops.arith.Div./Output $ INT $ INT) INT)
)
(assert
 (= (proj%%core!ops.arith.Div./Output $ NAT $ NAT) $)
)
(assert
 (= (proj%core!ops.arith.Div./Output $ NAT $ NAT) NAT)
)
(assert
 (= (proj%%core!ops.arith.Rem./Output (REF $) (SINT 64) $ (SINT 64)) $)
)
(assert
 (= (proj%core!ops.arith.Rem./Output (REF $) (SINT 64) $ (SINT 64)) (SINT 64))
)
(assert
 (= (proj%%core!ops.arith.Rem./Output (REF $) (SINT 64) (REF $) (SINT 64)) $)
)
(assert
 (= (proj%core!ops.arith.Rem./Output (REF $) (SINT 64) (REF $) (SINT 64)) (SINT 64))
)
(assert
 (= (proj%%core!ops.arith.Rem./Output $ (SINT 64) $ (SINT 64)) $)
)
(assert
 (= (proj%core!ops.arith.Rem./Output $ (SINT 64) $ (SINT 64)) (SINT 64))
)
(assert
 (= (proj%%core!ops.arith.Rem./Output $ (SINT 64) (REF $) (SINT 64)) $)
)
(assert
 (= (proj%core!ops.arith.Rem./Output $ (SINT 64) (REF $) (SINT 64)) (SINT 64))
)
(assert
 (= (proj%%core!ops.arith.Rem./Output $ INT $ INT) $)
)
(assert
 (= (proj%core!ops.arith.Rem./Output $ INT $ INT) INT)
)
(assert
 (= (proj%%core!ops.arith.Rem./Output $ NAT $ NAT) $)
)
(assert
 (= (proj%core!ops.arith.Rem./Output $ NAT $ NAT) NAT)
)
(assert
 (forall ((A&. Dcr) (A& Type) (F&. Dcr) (F& Type)) (!
   (=>
    (and
     (sized A&.)
     (tr_bound%core!marker.Tuple. A&. A&)
     (tr_bound%core!ops.function.Fn. F&. F& A&. A&)
    )
    (= (proj%%core!ops.function.FnOnce./Output (REF F&.) F& A&. A&) (proj%%core!ops.function.FnOnce./Output
      F&. F& A&. A&
   )))
   :pattern ((proj%%core!ops.function.FnOnce./Output (REF F&.) F& A&. A&))
   :qid internal_proj____core!ops.function.FnOnce./Output_core__ops__function__impls__impl&__2_assoc_type_impl_true_definition
   :skolemid skolem_internal_proj____core!ops.function.FnOnce./Output_core__ops__function__impls__impl&__2_assoc_type_impl_true_definition
)))
(assert
 (forall ((A&. Dcr) (A& Type) (F&. Dcr) (F& Type)) (!
   (=>
    (and
     (sized A&.)
     (tr_bound%core!marker.Tuple. A&. A&)
     (tr_bound%core!ops.function.Fn. F&. F& A&. A&)
    )
    (= (proj%core!ops.function.FnOnce./Output (REF F&.) F& A&. A&) (proj%core!ops.function.FnOnce./Output
      F&. F& A&. A&
   )))
   :pattern ((proj%core!ops.function.FnOnce./Output (REF F&.) F& A&. A&))
   :qid internal_proj__core!ops.function.FnOnce./Output_core__ops__function__impls__impl&__2_assoc_type_impl_false_definition
   :skolemid skolem_internal_proj__core!ops.function.FnOnce./Output_core__ops__function__impls__impl&__2_assoc_type_impl_false_definition
)))
(assert
 (forall ((A&. Dcr) (A& Type) (F&. Dcr) (F& Type)) (!
   (=>
    (and
     (sized A&.)
     (tr_bound%core!marker.Tuple. A&. A&)
     (tr_bound%core!ops.function.FnMut. F&. F& A&. A&)
    )
    (= (proj%%core!ops.function.FnOnce./Output $ (MUTREF F&. F&) A&. A&) (proj%%core!ops.function.FnOnce./Output
      F&. F& A&. A&
   )))
   :pattern ((proj%%core!ops.function.FnOnce./Output $ (MUTREF F&. F&) A&. A&))
   :qid internal_proj____core!ops.function.FnOnce./Output_core__ops__function__impls__impl&__4_assoc_type_impl_true_definition
   :skolemid skolem_internal_proj____core!ops.function.FnOnce./Output_core__ops__function__impls__impl&__4_assoc_type_impl_true_definition
)))
(assert
 (forall ((A&. Dcr) (A& Type) (F&. Dcr) (F& Type)) (!
   (=>
    (and
     (sized A&.)
     (tr_bound%core!marker.Tuple. A&. A&)
     (tr_bound%core!ops.function.FnMut. F&. F& A&. A&)
    )
    (= (proj%core!ops.function.FnOnce./Output $ (MUTREF F&. F&) A&. A&) (proj%core!ops.function.FnOnce./Output
      F&. F& A&. A&
   )))
   :pattern ((proj%core!ops.function.FnOnce./Output $ (MUTREF F&. F&) A&. A&))
   :qid internal_proj__core!ops.function.FnOnce./Output_core__ops__function__impls__impl&__4_assoc_type_impl_false_definition
   :skolemid skolem_internal_proj__core!ops.function.FnOnce./Output_core__ops__function__impls__impl&__4_assoc_type_impl_false_definition
)))
(assert
 (forall ((Args&. Dcr) (Args& Type) (F&. Dcr) (F& Type) (A&. Dcr) (A& Type)) (!
   (=>
    (and
     (sized Args&.)
     (sized A&.)
     (tr_bound%core!marker.Tuple. Args&. Args&)
     (tr_bound%core!ops.function.FnOnce. F&. F& Args&. Args&)
     (tr_bound%core!alloc.Allocator. A&. A&)
    )
    (= (proj%%core!ops.function.FnOnce./Output (BOX A&. A& F&.) F& Args&. Args&) (proj%%core!ops.function.FnOnce./Output
      F&. F& Args&. Args&
   )))
   :pattern ((proj%%core!ops.function.FnOnce./Output (BOX A&. A& F&.) F& Args&. Args&))
   :qid internal_proj____core!ops.function.FnOnce./Output_alloc__boxed__impl&__31_assoc_type_impl_true_definition
   :skolemid skolem_internal_proj____core!ops.function.FnOnce./Output_alloc__boxed__impl&__31_assoc_type_impl_true_definition
)))
(assert
 (forall ((Args&. Dcr) (Args& Type) (F&. Dcr) (F& Type) (A&. Dcr) (A& Type)) (!
   (=>
    (and
     (sized Args&.)
     (sized A&.)
     (tr_bound%core!marker.Tuple. Args&. Args&)
     (tr_bound%core!ops.function.FnOnce. F&. F& Args&. Args&)
     (tr_bound%core!alloc.Allocator. A&. A&)
    )
    (= (proj%core!ops.function.FnOnce./Output (BOX A&. A& F&.) F& Args&. Args&) (proj%core!ops.function.FnOnce./Output
      F&. F& Args&. Args&
   )))
   :pattern ((proj%core!ops.function.FnOnce./Output (BOX A&. A& F&.) F& Args&. Args&))
   :qid internal_proj__core!ops.function.FnOnce./Output_alloc__boxed__impl&__31_assoc_type_impl_false_definition
   :skolemid skolem_internal_proj__core!ops.function.FnOnce./Output_alloc__boxed__impl&__31_assoc_type_impl_false_definition
)))

;; Function-Decl vstd::std_specs::ops::DivSpec::div_req
(declare-fun vstd!std_specs.ops.DivSpec.div_req.? (Dcr Type Dcr Type Poly Poly) Poly)
(declare-fun vstd!std_specs.ops.DivSpec.div_req%default%.? (Dcr Type Dcr Type Poly
  Poly
 ) Poly
)

;; Function-Decl vstd::std_specs::ops::DivSpec::obeys_div_spec
(declare-fun vstd!std_specs.ops.DivSpec.obeys_div_spec.? (Dcr Type Dcr Type) Poly)
(declare-fun vstd!std_specs.ops.DivSpec.obeys_div_spec%default%.? (Dcr Type Dcr Type)
 Poly
)

;; Function-Decl vstd::std_specs::ops::DivSpec::div_spec
(declare-fun vstd!std_specs.ops.DivSpec.div_spec.? (Dcr Type Dcr Type Poly Poly) Poly)
(declare-fun vstd!std_specs.ops.DivSpec.div_spec%default%.? (Dcr Type Dcr Type Poly
  Poly
 ) Poly
)

;; Function-Decl vstd::std_specs::ops::RemSpec::rem_req
(declare-fun vstd!std_specs.ops.RemSpec.rem_req.? (Dcr Type Dcr Type Poly Poly) Poly)
(declare-fun vstd!std_specs.ops.RemSpec.rem_req%default%.? (Dcr Type Dcr Type Poly
  Poly
 ) Poly
)

;; Function-Decl vstd::std_specs::ops::RemSpec::obeys_rem_spec
(declare-fun vstd!std_specs.ops.RemSpec.obeys_rem_spec.? (Dcr Type Dcr Type) Poly)
(declare-fun vstd!std_specs.ops.RemSpec.obeys_rem_spec%default%.? (Dcr Type Dcr Type)
 Poly
)

;; Function-Decl vstd::std_specs::ops::RemSpec::rem_spec
(declare-fun vstd!std_specs.ops.RemSpec.rem_spec.? (Dcr Type Dcr Type Poly Poly) Poly)
(declare-fun vstd!std_specs.ops.RemSpec.rem_spec%default%.? (Dcr Type Dcr Type Poly
  Poly
 ) Poly
)

;; Function-Decl vstd::arithmetic::div_mod::rust_div
(declare-fun vstd!arithmetic.div_mod.rust_div.? (Poly Poly) Int)

;; Function-Decl vstd::arithmetic::div_mod::rust_rem
(declare-fun vstd!arithmetic.div_mod.rust_rem.? (Poly Poly) Int)

;; Trait-Impl-Axiom
(assert
 (forall ((A&. Dcr) (A& Type) (F&. Dcr) (F& Type)) (!
   (=>
    (and
     (sized A&.)
     (tr_bound%core!marker.Tuple. A&. A&)
     (tr_bound%core!ops.function.FnMut. F&. F& A&. A&)
    )
    (tr_bound%core!ops.function.FnOnce. $ (MUTREF F&. F&) A&. A&)
   )
   :pattern ((tr_bound%core!ops.function.FnOnce. $ (MUTREF F&. F&) A&. A&))
   :qid internal_core__ops__function__impls__impl&__4_trait_impl_definition
   :skolemid skolem_internal_core__ops__function__impls__impl&__4_trait_impl_definition
)))

;; Broadcast vstd::function::axiom_fn_mut_call_requires
(assert
 (=>
  (fuel_bool fuel%vstd!function.axiom_fn_mut_call_requires.)
  (forall ((Args&. Dcr) (Args& Type) (F&. Dcr) (F& Type) (f! Poly) (args! Poly)) (!
    (=>
     (and
      (has_type f! (MUTREF F&. F&))
      (has_type args! Args&)
     )
     (=>
      (and
       (and
        (and
         (and
          (sized Args&.)
          (sized F&.)
         )
         (tr_bound%core!marker.Tuple. Args&. Args&)
        )
        (tr_bound%core!ops.function.FnMut. F&. F& Args&. Args&)
       )
       (closure_req F& Args&. Args& (mut_ref_current% f!) args!)
      )
      (closure_req (MUTREF F&. F&) Args&. Args& f! args!)
    ))
    :pattern ((closure_req (MUTREF F&. F&) Args&. Args& f! args!))
    :qid user_vstd__function__axiom_fn_mut_call_requires_0
    :skolemid skolem_user_vstd__function__axiom_fn_mut_call_requires_0
))))

;; Broadcast vstd::function::axiom_fn_mut_call_ensures
(assert
 (=>
  (fuel_bool fuel%vstd!function.axiom_fn_mut_call_ensures.)
  (forall ((Args&. Dcr) (Args& Type) (F&. Dcr) (F& Type) (f! Poly) (args! Poly) (output!
     Poly
    )
   ) (!
    (=>
     (and
      (has_type f! (MUTREF F&. F&))
      (has_type args! Args&)
      (has_type output! (proj%core!ops.function.FnOnce./Output F&. F& Args&. Args&))
     )
     (=>
      (and
       (and
        (and
         (and
          (sized Args&.)
          (sized F&.)
         )
         (tr_bound%core!marker.Tuple. Args&. Args&)
        )
        (tr_bound%core!ops.function.FnMut. F&. F& Args&. Args&)
       )
       (closure_ens (MUTREF F&. F&) Args&. Args& f! args! output!)
      )
      (and
       (closure_ens F& Args&. Args& (mut_ref_current% f!) args! output!)
       (= (mut_ref_current% f!) (mut_ref_future% f!))
    )))
    :pattern ((closure_ens (MUTREF F&. F&) Args&. Args& f! args! output!))
    :qid user_vstd__function__axiom_fn_mut_call_ensures_0
    :skolemid skolem_user_vstd__function__axiom_fn_mut_call_ensures_0
))))

;; Trait-Impl-Axiom
(assert
 (tr_bound%core!marker.Tuple. $ TYPE%tuple%0.)
)

;; Function-Axioms vstd::std_specs::ops::DivSpec::div_req
(assert
 (forall ((Self%&. Dcr) (Self%& Type) (Rhs&. Dcr) (Rhs& Type) (self! Poly) (rhs! Poly))
  (!
   (=>
    (and
     (has_type self! Self%&)
     (has_type rhs! Rhs&)
    )
    (has_type (vstd!std_specs.ops.DivSpec.div_req.? Self%&. Self%& Rhs&. Rhs& self! rhs!)
     BOOL
   ))
   :pattern ((vstd!std_specs.ops.DivSpec.div_req.? Self%&. Self%& Rhs&. Rhs& self! rhs!))
   :qid internal_vstd!std_specs.ops.DivSpec.div_req.?_pre_post_definition
   :skolemid skolem_internal_vstd!std_specs.ops.DivSpec.div_req.?_pre_post_definition
)))

;; Function-Axioms vstd::std_specs::ops::DivSpec::obeys_div_spec
(assert
 (forall ((Self%&. Dcr) (Self%& Type) (Rhs&. Dcr) (Rhs& Type)) (!
   (has_type (vstd!std_specs.ops.DivSpec.obeys_div_spec.? Self%&. Self%& Rhs&. Rhs&)
    BOOL
   )
   :pattern ((vstd!std_specs.ops.DivSpec.obeys_div_spec.? Self%&. Self%& Rhs&. Rhs&))
   :qid internal_vstd!std_specs.ops.DivSpec.obeys_div_spec.?_pre_post_definition
   :skolemid skolem_internal_vstd!std_specs.ops.DivSpec.obeys_div_spec.?_pre_post_definition
)))

;; Function-Axioms vstd::std_specs::ops::DivSpec::div_spec
(assert
 (forall ((Self%&. Dcr) (Self%& Type) (Rhs&. Dcr) (Rhs& Type) (self! Poly) (rhs! Poly))
  (!
   (=>
    (and
     (has_type self! Self%&)
     (has_type rhs! Rhs&)
    )
    (has_type (vstd!std_specs.ops.DivSpec.div_spec.? Self%&. Self%& Rhs&. Rhs& self! rhs!)
     (proj%core!ops.arith.Div./Output Self%&. Self%& Rhs&. Rhs&)
   ))
   :pattern ((vstd!std_specs.ops.DivSpec.div_spec.? Self%&. Self%& Rhs&. Rhs& self! rhs!))
   :qid internal_vstd!std_specs.ops.DivSpec.div_spec.?_pre_post_definition
   :skolemid skolem_internal_vstd!std_specs.ops.DivSpec.div_spec.?_pre_post_definition
)))

;; Function-Specs core::ops::arith::Div::div
(declare-fun req%core!ops.arith.Div.div. (Dcr Type Dcr Type Poly Poly) Bool)
(declare-const %%global_location_label%%0 Bool)
(assert
 (forall ((Self%&. Dcr) (Self%& Type) (Rhs&. Dcr) (Rhs& Type) (self! Poly) (rhs! Poly))
  (!
   (= (req%core!ops.arith.Div.div. Self%&. Self%& Rhs&. Rhs& self! rhs!) (=>
     %%global_location_label%%0
     (%B (vstd!std_specs.ops.DivSpec.div_req.? Self%&. Self%& Rhs&. Rhs& self! rhs!))
   ))
   :pattern ((req%core!ops.arith.Div.div. Self%&. Self%& Rhs&. Rhs& self! rhs!))
   :qid internal_req__core!ops.arith.Div.div._definition
   :skolemid skolem_internal_req__core!ops.arith.Div.div._definition
)))
(declare-fun ens%core!ops.arith.Div.div. (Dcr Type Dcr Type Poly Poly Poly) Bool)
(assert
 (forall ((Self%&. Dcr) (Self%& Type) (Rhs&. Dcr) (Rhs& Type) (self! Poly) (rhs! Poly)
   (ret! Poly)
  ) (!
   (= (ens%core!ops.arith.Div.div. Self%&. Self%& Rhs&. Rhs& self! rhs! ret!) (and
     (has_type ret! (proj%core!ops.arith.Div./Output Self%&. Self%& Rhs&. Rhs&))
     (=>
      (%B (vstd!std_specs.ops.DivSpec.obeys_div_spec.? Self%&. Self%& Rhs&. Rhs&))
      (= ret! (vstd!std_specs.ops.DivSpec.div_spec.? Self%&. Self%& Rhs&. Rhs& self! rhs!))
   )))
   :pattern ((ens%core!ops.arith.Div.div. Self%&. Self%& Rhs&. Rhs& self! rhs! ret!))
   :qid internal_ens__core!ops.arith.Div.div._definition
   :skolemid skolem_internal_ens__core!ops.arith.Div.div._definition
)))

;; Function-Axioms vstd::std_specs::ops::RemSpec::rem_req
(assert
 (forall ((Self%&. Dcr) (Self%& Type) (Rhs&. Dcr) (Rhs& Type) (self! Poly) (rhs! Poly))
  (!
   (=>
    (and
     (has_type self! Self%&)
     (has_type rhs! Rhs&)
    )
    (has_type (vstd!std_specs.ops.RemSpec.rem_req.? Self%&. Self%& Rhs&. Rhs& self! rhs!)
     BOOL
   ))
   :pattern ((vstd!std_specs.ops.RemSpec.rem_req.? Self%&. Self%& Rhs&. Rhs& self! rhs!))
   :qid internal_vstd!std_specs.ops.RemSpec.rem_req.?_pre_post_definition
   :skolemid skolem_internal_vstd!std_specs.ops.RemSpec.rem_req.?_pre_post_definition
)))

;; Function-Axioms vstd::std_specs::ops::RemSpec::obeys_rem_spec
(assert
 (forall ((Self%&. Dcr) (Self%& Type) (Rhs&. Dcr) (Rhs& Type)) (!
   (has_type (vstd!std_specs.ops.RemSpec.obeys_rem_spec.? Self%&. Self%& Rhs&. Rhs&)
    BOOL
   )
   :pattern ((vstd!std_specs.ops.RemSpec.obeys_rem_spec.? Self%&. Self%& Rhs&. Rhs&))
   :qid internal_vstd!std_specs.ops.RemSpec.obeys_rem_spec.?_pre_post_definition
   :skolemid skolem_internal_vstd!std_specs.ops.RemSpec.obeys_rem_spec.?_pre_post_definition
)))

;; Function-Axioms vstd::std_specs::ops::RemSpec::rem_spec
(assert
 (forall ((Self%&. Dcr) (Self%& Type) (Rhs&. Dcr) (Rhs& Type) (self! Poly) (rhs! Poly))
  (!
   (=>
    (and
     (has_type self! Self%&)
     (has_type rhs! Rhs&)
    )
    (has_type (vstd!std_specs.ops.RemSpec.rem_spec.? Self%&. Self%& Rhs&. Rhs& self! rhs!)
     (proj%core!ops.arith.Rem./Output Self%&. Self%& Rhs&. Rhs&)
   ))
   :pattern ((vstd!std_specs.ops.RemSpec.rem_spec.? Self%&. Self%& Rhs&. Rhs& self! rhs!))
   :qid internal_vstd!std_specs.ops.RemSpec.rem_spec.?_pre_post_definition
   :skolemid skolem_internal_vstd!std_specs.ops.RemSpec.rem_spec.?_pre_post_definition
)))

;; Function-Specs core::ops::arith::Rem::rem
(declare-fun req%core!ops.arith.Rem.rem. (Dcr Type Dcr Type Poly Poly) Bool)
(declare-const %%global_location_label%%1 Bool)
(assert
 (forall ((Self%&. Dcr) (Self%& Type) (Rhs&. Dcr) (Rhs& Type) (self! Poly) (rhs! Poly))
  (!
   (= (req%core!ops.arith.Rem.rem. Self%&. Self%& Rhs&. Rhs& self! rhs!) (=>
     %%global_location_label%%1
     (%B (vstd!std_specs.ops.RemSpec.rem_req.? Self%&. Self%& Rhs&. Rhs& self! rhs!))
   ))
   :pattern ((req%core!ops.arith.Rem.rem. Self%&. Self%& Rhs&. Rhs& self! rhs!))
   :qid internal_req__core!ops.arith.Rem.rem._definition
   :skolemid skolem_internal_req__core!ops.arith.Rem.rem._definition
)))
(declare-fun ens%core!ops.arith.Rem.rem. (Dcr Type Dcr Type Poly Poly Poly) Bool)
(assert
 (forall ((Self%&. Dcr) (Self%& Type) (Rhs&. Dcr) (Rhs& Type) (self! Poly) (rhs! Poly)
   (ret! Poly)
  ) (!
   (= (ens%core!ops.arith.Rem.rem. Self%&. Self%& Rhs&. Rhs& self! rhs! ret!) (and
     (has_type ret! (proj%core!ops.arith.Rem./Output Self%&. Self%& Rhs&. Rhs&))
     (=>
      (%B (vstd!std_specs.ops.RemSpec.obeys_rem_spec.? Self%&. Self%& Rhs&. Rhs&))
      (= ret! (vstd!std_specs.ops.RemSpec.rem_spec.? Self%&. Self%& Rhs&. Rhs& self! rhs!))
   )))
   :pattern ((ens%core!ops.arith.Rem.rem. Self%&. Self%& Rhs&. Rhs& self! rhs! ret!))
   :qid internal_ens__core!ops.arith.Rem.rem._definition
   :skolemid skolem_internal_ens__core!ops.arith.Rem.rem._definition
)))

;; Function-Specs vstd::arithmetic::div_mod::rust_div
(declare-fun req%vstd!arithmetic.div_mod.rust_div. (Poly Poly) Bool)
(declare-const %%global_location_label%%2 Bool)
(assert
 (forall ((a! Poly) (b! Poly)) (!
   (= (req%vstd!arithmetic.div_mod.rust_div. a! b!) (=>
     %%global_location_label%%2
     (not (= (%I b!) 0))
   ))
   :pattern ((req%vstd!arithmetic.div_mod.rust_div. a! b!))
   :qid internal_req__vstd!arithmetic.div_mod.rust_div._definition
   :skolemid skolem_internal_req__vstd!arithmetic.div_mod.rust_div._definition
)))

;; Function-Axioms vstd::arithmetic::div_mod::rust_div
(assert
 (fuel_bool_default fuel%vstd!arithmetic.div_mod.rust_div.)
)
(assert
 (=>
  (fuel_bool fuel%vstd!arithmetic.div_mod.rust_div.)
  (forall ((a! Poly) (b! Poly)) (!
    (= (vstd!arithmetic.div_mod.rust_div.? a! b!) (ite
      (= (%I a!) 0)
      0
      (ite
       (> (%I a!) 0)
       (EucDiv (%I a!) (%I b!))
       (Sub 0 (EucDiv (Sub 0 (%I a!)) (%I b!)))
    )))
    :pattern ((vstd!arithmetic.div_mod.rust_div.? a! b!))
    :qid internal_vstd!arithmetic.div_mod.rust_div.?_definition
    :skolemid skolem_internal_vstd!arithmetic.div_mod.rust_div.?_definition
))))

;; Function-Specs vstd::arithmetic::div_mod::rust_rem
(declare-fun req%vstd!arithmetic.div_mod.rust_rem. (Poly Poly) Bool)
(declare-const %%global_location_label%%3 Bool)
(assert
 (forall ((a! Poly) (b! Poly)) (!
   (= (req%vstd!arithmetic.div_mod.rust_rem. a! b!) (=>
     %%global_location_label%%3
     (not (= (%I b!) 0))
   ))
   :pattern ((req%vstd!arithmetic.div_mod.rust_rem. a! b!))
   :qid internal_req__vstd!arithmetic.div_mod.rust_rem._definition
   :skolemid skolem_internal_req__vstd!arithmetic.div_mod.rust_rem._definition
)))

;; Function-Axioms vstd::arithmetic::div_mod::rust_rem
(assert
 (fuel_bool_default fuel%vstd!arithmetic.div_mod.rust_rem.)
)
(assert
 (=>
  (fuel_bool fuel%vstd!arithmetic.div_mod.rust_rem.)
  (forall ((a! Poly) (b! Poly)) (!
    (= (vstd!arithmetic.div_mod.rust_rem.? a! b!) (ite
      (= (%I a!) 0)
      0
      (ite
       (> (%I a!) 0)
       (EucMod (%I a!) (%I b!))
       (Sub 0 (EucMod (Sub 0 (%I a!)) (%I b!)))
    )))
    :pattern ((vstd!arithmetic.div_mod.rust_rem.? a! b!))
    :qid internal_vstd!arithmetic.div_mod.rust_rem.?_definition
    :skolemid skolem_internal_vstd!arithmetic.div_mod.rust_rem.?_definition
))))

;; Function-Axioms vstd::std_specs::ops::impl&%129::obeys_div_spec
(assert
 (fuel_bool_default fuel%vstd!std_specs.ops.impl&%129.obeys_div_spec.)
)
(assert
 (=>
  (fuel_bool fuel%vstd!std_specs.ops.impl&%129.obeys_div_spec.)
  (= (vstd!std_specs.ops.DivSpec.obeys_div_spec.? $ (SINT 64) $ (SINT 64)) (B true))
))

;; Function-Axioms vstd::std_specs::ops::impl&%129::div_req
(assert
 (fuel_bool_default fuel%vstd!std_specs.ops.impl&%129.div_req.)
)
(assert
 (=>
  (fuel_bool fuel%vstd!std_specs.ops.impl&%129.div_req.)
  (forall ((self! Poly) (rhs! Poly)) (!
    (= (vstd!std_specs.ops.DivSpec.div_req.? $ (SINT 64) $ (SINT 64) self! rhs!) (B (and
       (not (= (%I rhs!) 0))
       (not (and
         (= (%I self!) (- 9223372036854775808))
         (= (%I rhs!) (Sub 0 1))
    )))))
    :pattern ((vstd!std_specs.ops.DivSpec.div_req.? $ (SINT 64) $ (SINT 64) self! rhs!))
    :qid internal_vstd!std_specs.ops.impl&__129.div_req.?_definition
    :skolemid skolem_internal_vstd!std_specs.ops.impl&__129.div_req.?_definition
))))

;; Function-Axioms vstd::std_specs::ops::impl&%129::div_spec
(assert
 (fuel_bool_default fuel%vstd!std_specs.ops.impl&%129.div_spec.)
)
(assert
 (=>
  (fuel_bool fuel%vstd!std_specs.ops.impl&%129.div_spec.)
  (forall ((self! Poly) (rhs! Poly)) (!
    (= (vstd!std_specs.ops.DivSpec.div_spec.? $ (SINT 64) $ (SINT 64) self! rhs!) (I (iClip
       64 (ite
        (= (%I self!) 0)
        0
        (ite
         (> (%I self!) 0)
         (EucDiv (%I self!) (%I rhs!))
         (Sub 0 (EucDiv (Sub 0 (%I self!)) (%I rhs!)))
    )))))
    :pattern ((vstd!std_specs.ops.DivSpec.div_spec.? $ (SINT 64) $ (SINT 64) self! rhs!))
    :qid internal_vstd!std_specs.ops.impl&__129.div_spec.?_definition
    :skolemid skolem_internal_vstd!std_specs.ops.impl&__129.div_spec.?_definition
))))

;; Function-Axioms vstd::std_specs::ops::impl&%153::obeys_rem_spec
(assert
 (fuel_bool_default fuel%vstd!std_specs.ops.impl&%153.obeys_rem_spec.)
)
(assert
 (=>
  (fuel_bool fuel%vstd!std_specs.ops.impl&%153.obeys_rem_spec.)
  (= (vstd!std_specs.ops.RemSpec.obeys_rem_spec.? $ (SINT 64) $ (SINT 64)) (B true))
))

;; Function-Axioms vstd::std_specs::ops::impl&%153::rem_req
(assert
 (fuel_bool_default fuel%vstd!std_specs.ops.impl&%153.rem_req.)
)
(assert
 (=>
  (fuel_bool fuel%vstd!std_specs.ops.impl&%153.rem_req.)
  (forall ((self! Poly) (rhs! Poly)) (!
    (= (vstd!std_specs.ops.RemSpec.rem_req.? $ (SINT 64) $ (SINT 64) self! rhs!) (B (and
       (not (= (%I rhs!) 0))
       (not (and
         (= (%I self!) (- 9223372036854775808))
         (= (%I rhs!) (Sub 0 1))
    )))))
    :pattern ((vstd!std_specs.ops.RemSpec.rem_req.? $ (SINT 64) $ (SINT 64) self! rhs!))
    :qid internal_vstd!std_specs.ops.impl&__153.rem_req.?_definition
    :skolemid skolem_internal_vstd!std_specs.ops.impl&__153.rem_req.?_definition
))))

;; Function-Axioms vstd::std_specs::ops::impl&%153::rem_spec
(assert
 (fuel_bool_default fuel%vstd!std_specs.ops.impl&%153.rem_spec.)
)
(assert
 (=>
  (fuel_bool fuel%vstd!std_specs.ops.impl&%153.rem_spec.)
  (forall ((self! Poly) (rhs! Poly)) (!
    (= (vstd!std_specs.ops.RemSpec.rem_spec.? $ (SINT 64) $ (SINT 64) self! rhs!) (I (iClip
       64 (ite
        (= (%I self!) 0)
        0
        (ite
         (> (%I self!) 0)
         (EucMod (%I self!) (%I rhs!))
         (Sub 0 (EucMod (Sub 0 (%I self!)) (%I rhs!)))
    )))))
    :pattern ((vstd!std_specs.ops.RemSpec.rem_spec.? $ (SINT 64) $ (SINT 64) self! rhs!))
    :qid internal_vstd!std_specs.ops.impl&__153.rem_spec.?_definition
    :skolemid skolem_internal_vstd!std_specs.ops.impl&__153.rem_spec.?_definition
))))

;; Trait-Impl-Axiom
(assert
 (tr_bound%core!ops.arith.Div. $ (SINT 64) $ (SINT 64))
)

;; Trait-Impl-Axiom
(assert
 (tr_bound%vstd!std_specs.ops.DivSpec. $ (SINT 64) $ (SINT 64))
)

;; Trait-Impl-Axiom
(assert
 (tr_bound%core!ops.arith.Rem. $ (SINT 64) $ (SINT 64))
)

;; Trait-Impl-Axiom
(assert
 (tr_bound%vstd!std_specs.ops.RemSpec. $ (SINT 64) $ (SINT 64))
)

;; Trait-Impl-Axiom
(assert
 (tr_bound%core!ops.arith.Div. (REF $) (SINT 64) $ (SINT 64))
)

;; Trait-Impl-Axiom
(assert
 (tr_bound%core!ops.arith.Div. (REF $) (SINT 64) (REF $) (SINT 64))
)

;; Trait-Impl-Axiom
(assert
 (tr_bound%core!ops.arith.Div. $ (SINT 64) (REF $) (SINT 64))
)

;; Trait-Impl-Axiom
(assert
 (tr_bound%core!ops.arith.Div. $ INT $ INT)
)

;; Trait-Impl-Axiom
(assert
 (tr_bound%core!ops.arith.Div. $ NAT $ NAT)
)

;; Trait-Impl-Axiom
(assert
 (tr_bound%core!ops.arith.Rem. (REF $) (SINT 64) $ (SINT 64))
)

;; Trait-Impl-Axiom
(assert
 (tr_bound%core!ops.arith.Rem. (REF $) (SINT 64) (REF $) (SINT 64))
)

;; Trait-Impl-Axiom
(assert
 (tr_bound%core!ops.arith.Rem. $ (SINT 64) (REF $) (SINT 64))
)

;; Trait-Impl-Axiom
(assert
 (tr_bound%core!ops.arith.Rem. $ INT $ INT)
)

;; Trait-Impl-Axiom
(assert
 (tr_bound%core!ops.arith.Rem. $ NAT $ NAT)
)

;; Trait-Impl-Axiom
(assert
 (forall ((A&. Dcr) (A& Type) (F&. Dcr) (F& Type)) (!
   (=>
    (and
     (sized A&.)
     (tr_bound%core!marker.Tuple. A&. A&)
     (tr_bound%core!ops.function.Fn. F&. F& A&. A&)
    )
    (tr_bound%core!ops.function.FnOnce. (REF F&.) F& A&. A&)
   )
   :pattern ((tr_bound%core!ops.function.FnOnce. (REF F&.) F& A&. A&))
   :qid internal_core__ops__function__impls__impl&__2_trait_impl_definition
   :skolemid skolem_internal_core__ops__function__impls__impl&__2_trait_impl_definition
)))

;; Trait-Impl-Axiom
(assert
 (forall ((A&. Dcr) (A& Type) (F&. Dcr) (F& Type)) (!
   (=>
    (and
     (sized A&.)
     (tr_bound%core!marker.Tuple. A&. A&)
     (tr_bound%core!ops.function.Fn. F&. F& A&. A&)
    )
    (tr_bound%core!ops.function.FnMut. (REF F&.) F& A&. A&)
   )
   :pattern ((tr_bound%core!ops.function.FnMut. (REF F&.) F& A&. A&))
   :qid internal_core__ops__function__impls__impl&__1_trait_impl_definition
   :skolemid skolem_internal_core__ops__function__impls__impl&__1_trait_impl_definition
)))

;; Trait-Impl-Axiom
(assert
 (forall ((A&. Dcr) (A& Type) (F&. Dcr) (F& Type)) (!
   (=>
    (and
     (sized A&.)
     (tr_bound%core!marker.Tuple. A&. A&)
     (tr_bound%core!ops.function.Fn. F&. F& A&. A&)
    )
    (tr_bound%core!ops.function.Fn. (REF F&.) F& A&. A&)
   )
   :pattern ((tr_bound%core!ops.function.Fn. (REF F&.) F& A&. A&))
   :qid internal_core__ops__function__impls__impl&__0_trait_impl_definition
   :skolemid skolem_internal_core__ops__function__impls__impl&__0_trait_impl_definition
)))

;; Trait-Impl-Axiom
(assert
 (forall ((Args&. Dcr) (Args& Type) (F&. Dcr) (F& Type) (A&. Dcr) (A& Type)) (!
   (=>
    (and
     (sized Args&.)
     (sized A&.)
     (tr_bound%core!marker.Tuple. Args&. Args&)
     (tr_bound%core!ops.function.FnOnce. F&. F& Args&. Args&)
     (tr_bound%core!alloc.Allocator. A&. A&)
    )
    (tr_bound%core!ops.function.FnOnce. (BOX A&. A& F&.) F& Args&. Args&)
   )
   :pattern ((tr_bound%core!ops.function.FnOnce. (BOX A&. A& F&.) F& Args&. Args&))
   :qid internal_alloc__boxed__impl&__31_trait_impl_definition
   :skolemid skolem_internal_alloc__boxed__impl&__31_trait_impl_definition
)))

;; Trait-Impl-Axiom
(assert
 (forall ((Args&. Dcr) (Args& Type) (F&. Dcr) (F& Type) (A&. Dcr) (A& Type)) (!
   (=>
    (and
     (sized Args&.)
     (sized A&.)
     (tr_bound%core!marker.Tuple. Args&. Args&)
     (tr_bound%core!ops.function.FnMut. F&. F& Args&. Args&)
     (tr_bound%core!alloc.Allocator. A&. A&)
    )
    (tr_bound%core!ops.function.FnMut. (BOX A&. A& F&.) F& Args&. Args&)
   )
   :pattern ((tr_bound%core!ops.function.FnMut. (BOX A&. A& F&.) F& Args&. Args&))
   :qid internal_alloc__boxed__impl&__32_trait_impl_definition
   :skolemid skolem_internal_alloc__boxed__impl&__32_trait_impl_definition
)))

;; Trait-Impl-Axiom
(assert
 (forall ((Args&. Dcr) (Args& Type) (F&. Dcr) (F& Type) (A&. Dcr) (A& Type)) (!
   (=>
    (and
     (sized Args&.)
     (sized A&.)
     (tr_bound%core!marker.Tuple. Args&. Args&)
     (tr_bound%core!ops.function.Fn. F&. F& Args&. Args&)
     (tr_bound%core!alloc.Allocator. A&. A&)
    )
    (tr_bound%core!ops.function.Fn. (BOX A&. A& F&.) F& Args&. Args&)
   )
   :pattern ((tr_bound%core!ops.function.Fn. (BOX A&. A& F&.) F& Args&. Args&))
   :qid internal_alloc__boxed__impl&__33_trait_impl_definition
   :skolemid skolem_internal_alloc__boxed__impl&__33_trait_impl_definition
)))

;; Trait-Impl-Axiom
(assert
 (forall ((A&. Dcr) (A& Type) (F&. Dcr) (F& Type)) (!
   (=>
    (and
     (sized A&.)
     (tr_bound%core!marker.Tuple. A&. A&)
     (tr_bound%core!ops.function.FnMut. F&. F& A&. A&)
    )
    (tr_bound%core!ops.function.FnMut. $ (MUTREF F&. F&) A&. A&)
   )
   :pattern ((tr_bound%core!ops.function.FnMut. $ (MUTREF F&. F&) A&. A&))
   :qid internal_core__ops__function__impls__impl&__3_trait_impl_definition
   :skolemid skolem_internal_core__ops__function__impls__impl&__3_trait_impl_definition
)))

;; Trait-Impl-Axiom
(assert
 (forall ((A&. Dcr) (A& Type)) (!
   (=>
    (tr_bound%core!alloc.Allocator. A&. A&)
    (tr_bound%core!alloc.Allocator. (REF A&.) A&)
   )
   :pattern ((tr_bound%core!alloc.Allocator. (REF A&.) A&))
   :qid internal_core__alloc__impl&__2_trait_impl_definition
   :skolemid skolem_internal_core__alloc__impl&__2_trait_impl_definition
)))

;; Trait-Impl-Axiom
(assert
 (forall ((A&. Dcr) (A& Type)) (!
   (=>
    (tr_bound%core!alloc.Allocator. A&. A&)
    (tr_bound%core!alloc.Allocator. $ (MUTREF A&. A&))
   )
   :pattern ((tr_bound%core!alloc.Allocator. $ (MUTREF A&. A&)))
   :qid internal_core__alloc__impl&__3_trait_impl_definition
   :skolemid skolem_internal_core__alloc__impl&__3_trait_impl_definition
)))

;; Trait-Impl-Axiom
(assert
 (forall ((T&. Dcr) (T& Type) (A&. Dcr) (A& Type)) (!
   (=>
    (and
     (sized A&.)
     (tr_bound%core!alloc.Allocator. T&. T&)
     (tr_bound%core!alloc.Allocator. A&. A&)
    )
    (tr_bound%core!alloc.Allocator. (BOX A&. A& T&.) T&)
   )
   :pattern ((tr_bound%core!alloc.Allocator. (BOX A&. A& T&.) T&))
   :qid internal_alloc__boxed__impl&__49_trait_impl_definition
   :skolemid skolem_internal_alloc__boxed__impl&__49_trait_impl_definition
)))

;; Trait-Impl-Axiom
(assert
 (forall ((T&. Dcr) (T& Type) (A&. Dcr) (A& Type)) (!
   (=>
    (and
     (sized A&.)
     (tr_bound%core!alloc.Allocator. T&. T&)
     (tr_bound%core!alloc.Allocator. A&. A&)
    )
    (tr_bound%core!alloc.Allocator. (RC A&. A& T&.) T&)
   )
   :pattern ((tr_bound%core!alloc.Allocator. (RC A&. A& T&.) T&))
   :qid internal_alloc__rc__impl&__116_trait_impl_definition
   :skolemid skolem_internal_alloc__rc__impl&__116_trait_impl_definition
)))

;; Trait-Impl-Axiom
(assert
 (forall ((T&. Dcr) (T& Type) (A&. Dcr) (A& Type)) (!
   (=>
    (and
     (sized A&.)
     (tr_bound%core!alloc.Allocator. T&. T&)
     (tr_bound%core!alloc.Allocator. A&. A&)
    )
    (tr_bound%core!alloc.Allocator. (ARC A&. A& T&.) T&)
   )
   :pattern ((tr_bound%core!alloc.Allocator. (ARC A&. A& T&.) T&))
   :qid internal_alloc__sync__impl&__118_trait_impl_definition
   :skolemid skolem_internal_alloc__sync__impl&__118_trait_impl_definition
)))

;; Trait-Impl-Axiom
(assert
 (forall ((Rhs&. Dcr) (Rhs& Type) (VERUS_SPEC__A&. Dcr) (VERUS_SPEC__A& Type)) (!
   (=>
    (and
     (sized Rhs&.)
     (tr_bound%core!ops.arith.Div. VERUS_SPEC__A&. VERUS_SPEC__A& Rhs&. Rhs&)
    )
    (tr_bound%vstd!std_specs.ops.DivSpec. VERUS_SPEC__A&. VERUS_SPEC__A& Rhs&. Rhs&)
   )
   :pattern ((tr_bound%vstd!std_specs.ops.DivSpec. VERUS_SPEC__A&. VERUS_SPEC__A& Rhs&.
     Rhs&
   ))
   :qid internal_vstd__std_specs__ops__impl&__8_trait_impl_definition
   :skolemid skolem_internal_vstd__std_specs__ops__impl&__8_trait_impl_definition
)))

;; Trait-Impl-Axiom
(assert
 (forall ((Rhs&. Dcr) (Rhs& Type) (VERUS_SPEC__A&. Dcr) (VERUS_SPEC__A& Type)) (!
   (=>
    (and
     (sized Rhs&.)
     (tr_bound%core!ops.arith.Rem. VERUS_SPEC__A&. VERUS_SPEC__A& Rhs&. Rhs&)
    )
    (tr_bound%vstd!std_specs.ops.RemSpec. VERUS_SPEC__A&. VERUS_SPEC__A& Rhs&. Rhs&)
   )
   :pattern ((tr_bound%vstd!std_specs.ops.RemSpec. VERUS_SPEC__A&. VERUS_SPEC__A& Rhs&.
     Rhs&
   ))
   :qid internal_vstd__std_specs__ops__impl&__10_trait_impl_definition
   :skolemid skolem_internal_vstd__std_specs__ops__impl&__10_trait_impl_definition
)))

;; Function-Specs t4::m1
(declare-fun req%t4!m1. (Int Int) Bool)
(declare-const %%global_location_label%%4 Bool)
(declare-const %%global_location_label%%5 Bool)
(assert
 (forall ((a! Int) (b! Int)) (!
   (= (req%t4!m1. a! b!) (and
     (=>
      %%global_location_label%%4
      (not (= b! 0))
     )
     (=>
      %%global_location_label%%5
      (> a! (- 9223372036854775808))
   )))
   :pattern ((req%t4!m1. a! b!))
   :qid internal_req__t4!m1._definition
   :skolemid skolem_internal_req__t4!m1._definition
)))
(declare-fun ens%t4!m1. (Int Int Int) Bool)
(assert
 (forall ((a! Int) (b! Int) (r! Int)) (!
   (= (ens%t4!m1. a! b! r!) (and
     (iInv 64 r!)
     (= r! 7)
   ))
   :pattern ((ens%t4!m1. a! b! r!))
   :qid internal_ens__t4!m1._definition
   :skolemid skolem_internal_ens__t4!m1._definition
)))

;; Function-Def t4::m1
;; t4.rs:3:1: 3:33 (#0)
(push)
 (get-info :all-statistics)
 (declare-const r! Int)
 (declare-const a! Int)
 (declare-const b! Int)
 (declare-const tmp%1 Poly)
 (declare-const tmp%2 Poly)
 (declare-const q@ Int)
 (declare-const m@ Int)
 (assert
  fuel_defaults
 )
 (assert
  (iInv 64 a!)
 )
 (assert
  (iInv 64 b!)
 )
 (assert
  (not (= b! 0))
 )
 (assert
  (> a! (- 9223372036854775808))
 )
 ;; precondition not satisfied
 (declare-const %%location_label%%0 Bool)
 ;; precondition not satisfied
 (declare-const %%location_label%%1 Bool)
 ;; possible arithmetic underflow/overflow
 (declare-const %%location_label%%2 Bool)
 ;; postcondition not satisfied
 (declare-const %%location_label%%3 Bool)
 (assert
  (not (and
    (=>
     %%location_label%%0
     (req%core!ops.arith.Div.div. $ (SINT 64) $ (SINT 64) (I a!) (I b!))
    )
    (=>
     (ens%core!ops.arith.Div.div. $ (SINT 64) $ (SINT 64) (I a!) (I b!) tmp%1)
     (=>
      (= q@ (%I tmp%1))
      (and
       (=>
        %%location_label%%1
        (req%core!ops.arith.Rem.rem. $ (SINT 64) $ (SINT 64) (I a!) (I b!))
       )
       (=>
        (ens%core!ops.arith.Rem.rem. $ (SINT 64) $ (SINT 64) (I a!) (I b!) tmp%2)
        (=>
         (= m@ (%I tmp%2))
         (and
          (=>
           %%location_label%%2
           (iInv 64 (Add q@ m@))
          )
          (=>
           (iInv 64 (Add q@ m@))
           (=>
            (= r! (iClip 64 (Add q@ m@)))
            (=>
             %%location_label%%3
             (= r! 7)
 ))))))))))))
 (get-info :all-statistics)
 (get-info :version)
 (set-option :rlimit 30000000)
 (check-sat)
 (set-option :rlimit 0)
 (get-info :reason-unknown)
 (get-model)
 (assert
  (not %%location_label%%2)
 )
 (get-info :all-statistics)
 (get-info :version)
 (set-option :rlimit 30000000)
 (check-sat)
 (set-option :rlimit 0)
 (get-info :reason-unknown)
 (get-model)
 (assert
  (not %%location_label%%3)
 )
 (get-info :version)
 (assert
  true
 )
 (set-option :rlimit 30000000)
 (check-sat)
 (set-option :rlimit 0)
(pop)

;; Function-Recommends t4::m1
;; t4.rs:3:1: 3:33 (#0)
(push)
 (get-info :all-statistics)
 (declare-const r! Int)
 (declare-const a! Int)
 (declare-const b! Int)
 (declare-const tmp%1 Poly)
 (declare-const tmp%2 Poly)
 (declare-const q@ Int)
 (declare-const m@ Int)
 (assert
  fuel_defaults
 )
 (assert
  (iInv 64 a!)
 )
 (assert
  (iInv 64 b!)
 )
 (assert
  (not true)
 )
 (get-info :all-statistics)
 (get-info :version)
 (set-option :rlimit 30000000)
 (check-sat)
 (set-option :rlimit 0)
 (get-info :all-statistics)
(pop)
