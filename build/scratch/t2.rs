use vstd::prelude::*;
verus! {
fn d1(a: i64, b: i64) -> (r: i64)
    requires b > 0
    ensures a >= 0 ==> r == a as int / b as int, a < 0 ==> r == -((-a) / b as int)
{ a / b }
fn d2(a: i64, b: i64) -> (r: i64)
    requires b < 0, a > i64::MIN
    ensures a >= 0 ==> r == -(a as int / (-b)), a < 0 ==> r == ((-a) / (-b))
{ a / b }
fn m1(a: i64, b: i64) -> (r: i64)
    requires b > 0
    ensures a >= 0 ==> r == a as int % b as int, a < 0 ==> r == -((-a) % b as int)
{ a % b }
fn m2(a: i64, b: i64) -> (r: i64)
    requires b < 0, a > i64::MIN
    ensures a >= 0 ==> r == (a as int % (-b)), a < 0 ==> r == -((-a) % (-b))
{ a % b }
}
fn main() {}
