#![allow(unused, non_snake_case, non_upper_case_globals)]
use vstd::prelude::*;
verus! {
// ---- include lib/stdspecs.vrs ----
// Specifications of core integer methods that vstd 0.2026.09.13 does not provide (trusted; each mirrors the std documentation).
// Included by every unit so that an edited body that starts using one of them is still decided.
pub assume_specification[ i8::div_euclid ](x: i8, y: i8) -> (r: i8) requires y != 0, !(x == i8::MIN && y == -1), ensures y > 0 ==> r as int == (x as int) / (y as int);
pub assume_specification[ i8::rem_euclid ](x: i8, y: i8) -> (r: i8) requires y != 0, !(x == i8::MIN && y == -1), ensures y > 0 ==> r as int == (x as int) % (y as int), y < 0 ==> r as int == (x as int) % (-(y as int));
pub assume_specification[ i8::abs ](x: i8) -> (r: i8) requires x != i8::MIN, ensures r as int == (if x < 0 { -(x as int) } else { x as int });
pub assume_specification[ i8::signum ](x: i8) -> (r: i8) ensures r == (if x > 0 { 1int } else if x < 0 { -1int } else { 0int });
pub assume_specification[ i8::is_positive ](x: i8) -> (r: bool) ensures r == (x > 0);
pub assume_specification[ i8::is_negative ](x: i8) -> (r: bool) ensures r == (x < 0);
pub assume_specification[ i8::checked_neg ](x: i8) -> (r: Option<i8>) ensures x == i8::MIN ==> r.is_none(), x != i8::MIN ==> r == Some((-x) as i8);
pub assume_specification[ i8::saturating_add ](x: i8, y: i8) -> (r: i8) ensures i8::MIN <= x + y <= i8::MAX ==> r == x + y, x + y > i8::MAX ==> r == i8::MAX, x + y < i8::MIN ==> r == i8::MIN;
pub assume_specification[ i8::saturating_sub ](x: i8, y: i8) -> (r: i8) ensures i8::MIN <= x - y <= i8::MAX ==> r == x - y, x - y > i8::MAX ==> r == i8::MAX, x - y < i8::MIN ==> r == i8::MIN;
pub assume_specification[ i8::saturating_neg ](x: i8) -> (r: i8) ensures x == i8::MIN ==> r == i8::MAX, x != i8::MIN ==> r == -x;
pub assume_specification[ i8::unsigned_abs ](x: i8) -> (r: u8) ensures r as int == (if x < 0 { -(x as int) } else { x as int });
pub assume_specification[ i8::checked_abs ](x: i8) -> (r: Option<i8>) ensures x == i8::MIN ==> r.is_none(), x != i8::MIN ==> r == Some((if x < 0 { -x } else { x as int }) as i8);
pub assume_specification[ i16::div_euclid ](x: i16, y: i16) -> (r: i16) requires y != 0, !(x == i16::MIN && y == -1), ensures y > 0 ==> r as int == (x as int) / (y as int);
pub assume_specification[ i16::rem_euclid ](x: i16, y: i16) -> (r: i16) requires y != 0, !(x == i16::MIN && y == -1), ensures y > 0 ==> r as int == (x as int) % (y as int), y < 0 ==> r as int == (x as int) % (-(y as int));
pub assume_specification[ i16::abs ](x: i16) -> (r: i16) requires x != i16::MIN, ensures r as int == (if x < 0 { -(x as int) } else { x as int });
pub assume_specification[ i16::signum ](x: i16) -> (r: i16) ensures r == (if x > 0 { 1int } else if x < 0 { -1int } else { 0int });
pub assume_specification[ i16::is_positive ](x: i16) -> (r: bool) ensures r == (x > 0);
pub assume_specification[ i16::is_negative ](x: i16) -> (r: bool) ensures r == (x < 0);
pub assume_specification[ i16::checked_neg ](x: i16) -> (r: Option<i16>) ensures x == i16::MIN ==> r.is_none(), x != i16::MIN ==> r == Some((-x) as i16);
pub assume_specification[ i16::saturating_add ](x: i16, y: i16) -> (r: i16) ensures i16::MIN <= x + y <= i16::MAX ==> r == x + y, x + y > i16::MAX ==> r == i16::MAX, x + y < i16::MIN ==> r == i16::MIN;
pub assume_specification[ i16::saturating_sub ](x: i16, y: i16) -> (r: i16) ensures i16::MIN <= x - y <= i16::MAX ==> r == x - y, x - y > i16::MAX ==> r == i16::MAX, x - y < i16::MIN ==> r == i16::MIN;
pub assume_specification[ i16::saturating_neg ](x: i16) -> (r: i16) ensures x == i16::MIN ==> r == i16::MAX, x != i16::MIN ==> r == -x;
pub assume_specification[ i16::unsigned_abs ](x: i16) -> (r: u16) ensures r as int == (if x < 0 { -(x as int) } else { x as int });
pub assume_specification[ i16::checked_abs ](x: i16) -> (r: Option<i16>) ensures x == i16::MIN ==> r.is_none(), x != i16::MIN ==> r == Some((if x < 0 { -x } else { x as int }) as i16);
pub assume_specification[ i32::div_euclid ](x: i32, y: i32) -> (r: i32) requires y != 0, !(x == i32::MIN && y == -1), ensures y > 0 ==> r as int == (x as int) / (y as int);
pub assume_specification[ i32::rem_euclid ](x: i32, y: i32) -> (r: i32) requires y != 0, !(x == i32::MIN && y == -1), ensures y > 0 ==> r as int == (x as int) % (y as int), y < 0 ==> r as int == (x as int) % (-(y as int));
pub assume_specification[ i32::abs ](x: i32) -> (r: i32) requires x != i32::MIN, ensures r as int == (if x < 0 { -(x as int) } else { x as int });
pub assume_specification[ i32::signum ](x: i32) -> (r: i32) ensures r == (if x > 0 { 1int } else if x < 0 { -1int } else { 0int });
pub assume_specification[ i32::is_positive ](x: i32) -> (r: bool) ensures r == (x > 0);
pub assume_specification[ i32::is_negative ](x: i32) -> (r: bool) ensures r == (x < 0);
pub assume_specification[ i32::checked_neg ](x: i32) -> (r: Option<i32>) ensures x == i32::MIN ==> r.is_none(), x != i32::MIN ==> r == Some((-x) as i32);
pub assume_specification[ i32::saturating_add ](x: i32, y: i32) -> (r: i32) ensures i32::MIN <= x + y <= i32::MAX ==> r == x + y, x + y > i32::MAX ==> r == i32::MAX, x + y < i32::MIN ==> r == i32::MIN;
pub assume_specification[ i32::saturating_sub ](x: i32, y: i32) -> (r: i32) ensures i32::MIN <= x - y <= i32::MAX ==> r == x - y, x - y > i32::MAX ==> r == i32::MAX, x - y < i32::MIN ==> r == i32::MIN;
pub assume_specification[ i32::saturating_neg ](x: i32) -> (r: i32) ensures x == i32::MIN ==> r == i32::MAX, x != i32::MIN ==> r == -x;
pub assume_specification[ i32::unsigned_abs ](x: i32) -> (r: u32) ensures r as int == (if x < 0 { -(x as int) } else { x as int });
pub assume_specification[ i32::checked_abs ](x: i32) -> (r: Option<i32>) ensures x == i32::MIN ==> r.is_none(), x != i32::MIN ==> r == Some((if x < 0 { -x } else { x as int }) as i32);
pub assume_specification[ i64::div_euclid ](x: i64, y: i64) -> (r: i64) requires y != 0, !(x == i64::MIN && y == -1), ensures y > 0 ==> r as int == (x as int) / (y as int);
pub assume_specification[ i64::rem_euclid ](x: i64, y: i64) -> (r: i64) requires y != 0, !(x == i64::MIN && y == -1), ensures y > 0 ==> r as int == (x as int) % (y as int), y < 0 ==> r as int == (x as int) % (-(y as int));
pub assume_specification[ i64::abs ](x: i64) -> (r: i64) requires x != i64::MIN, ensures r as int == (if x < 0 { -(x as int) } else { x as int });
pub assume_specification[ i64::signum ](x: i64) -> (r: i64) ensures r == (if x > 0 { 1int } else if x < 0 { -1int } else { 0int });
pub assume_specification[ i64::is_positive ](x: i64) -> (r: bool) ensures r == (x > 0);
pub assume_specification[ i64::is_negative ](x: i64) -> (r: bool) ensures r == (x < 0);
pub assume_specification[ i64::checked_neg ](x: i64) -> (r: Option<i64>) ensures x == i64::MIN ==> r.is_none(), x != i64::MIN ==> r == Some((-x) as i64);
pub assume_specification[ i64::saturating_add ](x: i64, y: i64) -> (r: i64) ensures i64::MIN <= x + y <= i64::MAX ==> r == x + y, x + y > i64::MAX ==> r == i64::MAX, x + y < i64::MIN ==> r == i64::MIN;
pub assume_specification[ i64::saturating_sub ](x: i64, y: i64) -> (r: i64) ensures i64::MIN <= x - y <= i64::MAX ==> r == x - y, x - y > i64::MAX ==> r == i64::MAX, x - y < i64::MIN ==> r == i64::MIN;
pub assume_specification[ i64::saturating_neg ](x: i64) -> (r: i64) ensures x == i64::MIN ==> r == i64::MAX, x != i64::MIN ==> r == -x;
pub assume_specification[ i64::unsigned_abs ](x: i64) -> (r: u64) ensures r as int == (if x < 0 { -(x as int) } else { x as int });
pub assume_specification[ i64::checked_abs ](x: i64) -> (r: Option<i64>) ensures x == i64::MIN ==> r.is_none(), x != i64::MIN ==> r == Some((if x < 0 { -x } else { x as int }) as i64);
pub assume_specification[ i128::div_euclid ](x: i128, y: i128) -> (r: i128) requires y != 0, !(x == i128::MIN && y == -1), ensures y > 0 ==> r as int == (x as int) / (y as int);
pub assume_specification[ i128::rem_euclid ](x: i128, y: i128) -> (r: i128) requires y != 0, !(x == i128::MIN && y == -1), ensures y > 0 ==> r as int == (x as int) % (y as int), y < 0 ==> r as int == (x as int) % (-(y as int));
pub assume_specification[ i128::abs ](x: i128) -> (r: i128) requires x != i128::MIN, ensures r as int == (if x < 0 { -(x as int) } else { x as int });
pub assume_specification[ i128::signum ](x: i128) -> (r: i128) ensures r == (if x > 0 { 1int } else if x < 0 { -1int } else { 0int });
pub assume_specification[ i128::is_positive ](x: i128) -> (r: bool) ensures r == (x > 0);
pub assume_specification[ i128::is_negative ](x: i128) -> (r: bool) ensures r == (x < 0);
pub assume_specification[ i128::checked_neg ](x: i128) -> (r: Option<i128>) ensures x == i128::MIN ==> r.is_none(), x != i128::MIN ==> r == Some((-x) as i128);
pub assume_specification[ i128::saturating_add ](x: i128, y: i128) -> (r: i128) ensures i128::MIN <= x + y <= i128::MAX ==> r == x + y, x + y > i128::MAX ==> r == i128::MAX, x + y < i128::MIN ==> r == i128::MIN;
pub assume_specification[ i128::saturating_sub ](x: i128, y: i128) -> (r: i128) ensures i128::MIN <= x - y <= i128::MAX ==> r == x - y, x - y > i128::MAX ==> r == i128::MAX, x - y < i128::MIN ==> r == i128::MIN;
pub assume_specification[ i128::saturating_neg ](x: i128) -> (r: i128) ensures x == i128::MIN ==> r == i128::MAX, x != i128::MIN ==> r == -x;
pub assume_specification[ i128::unsigned_abs ](x: i128) -> (r: u128) ensures r as int == (if x < 0 { -(x as int) } else { x as int });
pub assume_specification[ i128::checked_abs ](x: i128) -> (r: Option<i128>) ensures x == i128::MIN ==> r.is_none(), x != i128::MIN ==> r == Some((if x < 0 { -x } else { x as int }) as i128);

// ---- std integer methods without a vstd spec (trusted; each is the documented std behaviour) ----
// (std spec moved to lib/stdspecs.vrs: i64::signum)
// (std spec moved to lib/stdspecs.vrs: i32::signum)
// (std spec moved to lib/stdspecs.vrs: i64::checked_neg)
// (std spec moved to lib/stdspecs.vrs: i64::abs)
// (std spec moved to lib/stdspecs.vrs: i32::abs)
// (std spec moved to lib/stdspecs.vrs: i64::is_positive)
// (std spec moved to lib/stdspecs.vrs: i32::is_positive)
// (std spec moved to lib/stdspecs.vrs: i64::is_negative)
// (std spec moved to lib/stdspecs.vrs: i32::is_negative)

// (std spec moved to lib/stdspecs.vrs: i64::unsigned_abs)
// (std spec moved to lib/stdspecs.vrs: i32::unsigned_abs)
// std::time::Duration is opaque here: only its denoted nanosecond count is modelled (trusted view of std)
use core::time::Duration;
pub uninterp spec fn dur_ns(d: Duration) -> int;
pub assume_specification[ Duration::new ](secs: u64, nanos: u32) -> (r: Duration)
    requires secs as int + nanos as int / 1_000_000_000 <= u64::MAX,    // std: panics iff the carry overflows the seconds
    ensures dur_ns(r) == secs as int * 1_000_000_000 + nanos as int;

// ---- C12 specification: a SignedDuration denotes an exact signed nanosecond count ----
impl SignedDuration {
    /// the denoted number of nanoseconds (mathematical integer)
    pub open spec fn tot(self) -> int { self.secs as int * 1_000_000_000 + self.nanos as int }
    /// representation invariant: |nanos| < 1s and seconds / nanoseconds never of opposite sign
    pub open spec fn wf(self) -> bool {
        -999_999_999 <= self.nanos <= 999_999_999
        && !(self.secs > 0 && self.nanos < 0) && !(self.secs < 0 && self.nanos > 0)
    }
}
/// the nanosecond counts some SignedDuration can denote
pub open spec fn representable(t: int) -> bool {
    i64::MIN as int * 1_000_000_000 - 999_999_999 <= t <= i64::MAX as int * 1_000_000_000 + 999_999_999
}
/// exact quotient truncated toward zero (b != 0); only non-negative operands reach the `/` of mathematical ints
pub open spec fn tdiv(a: int, b: int) -> int {
    if b > 0 { if a >= 0 { a / b } else { -((-a) / b) } }
    else { if a >= 0 { -(a / (-b)) } else { (-a) / (-b) } }
}
pub open spec fn trem(a: int, b: int) -> int { a - tdiv(a, b) * b }
pub open spec fn iabs(a: int) -> int { if a < 0 { -a } else { a } }
/// saturation of an exact nanosecond count
pub open spec fn sat(t: int) -> SignedDuration {
    if t > i64::MAX as int * 1_000_000_000 + 999_999_999 { SignedDuration::MAX }
    else if t < i64::MIN as int * 1_000_000_000 - 999_999_999 { SignedDuration::MIN }
    else { arbitrary() }
}

// ---- operator traits: `-a`, `a + b`, `a - b`, `a * k`, `a / k` are exact and panic-free whenever the exact result is representable
impl vstd::std_specs::ops::NegSpecImpl for SignedDuration {
    open spec fn obeys_neg_spec() -> bool { true }
    open spec fn neg_req(self) -> bool { self.wf() && representable(-self.tot()) }
    open spec fn neg_spec(self) -> SignedDuration { of_tot(-self.tot()) }
}
impl vstd::std_specs::ops::AddSpecImpl for SignedDuration {
    open spec fn obeys_add_spec() -> bool { true }
    open spec fn add_req(self, rhs: SignedDuration) -> bool { self.wf() && rhs.wf() && representable(self.tot() + rhs.tot()) }
    open spec fn add_spec(self, rhs: SignedDuration) -> SignedDuration { of_tot(self.tot() + rhs.tot()) }
}
impl vstd::std_specs::ops::SubSpecImpl for SignedDuration {
    open spec fn obeys_sub_spec() -> bool { true }
    open spec fn sub_req(self, rhs: SignedDuration) -> bool { self.wf() && rhs.wf() && representable(self.tot() - rhs.tot()) }
    open spec fn sub_spec(self, rhs: SignedDuration) -> SignedDuration { of_tot(self.tot() - rhs.tot()) }
}
impl vstd::std_specs::ops::MulSpecImpl<i32> for SignedDuration {
    open spec fn obeys_mul_spec() -> bool { true }
    open spec fn mul_req(self, rhs: i32) -> bool { self.wf() && representable(self.tot() * rhs) }
    open spec fn mul_spec(self, rhs: i32) -> SignedDuration { of_tot(self.tot() * rhs) }
}
impl vstd::std_specs::ops::DivSpecImpl<i32> for SignedDuration {
    open spec fn obeys_div_spec() -> bool { true }
    open spec fn div_req(self, rhs: i32) -> bool { self.wf() && rhs != 0 && representable(tdiv(self.tot(), rhs as int)) }
    open spec fn div_spec(self, rhs: i32) -> SignedDuration { of_tot(tdiv(self.tot(), rhs as int)) }
}
impl vstd::std_specs::ops::MulSpecImpl<SignedDuration> for i32 {
    open spec fn obeys_mul_spec() -> bool { true }
    open spec fn mul_req(self, rhs: SignedDuration) -> bool { rhs.wf() && representable(rhs.tot() * self) }
    open spec fn mul_spec(self, rhs: SignedDuration) -> SignedDuration { of_tot(rhs.tot() * self) }
}
impl vstd::std_specs::ops::AddAssignSpecImpl for SignedDuration {
    open spec fn obeys_add_assign_spec() -> bool { true }
    open spec fn add_assign_req(&self, rhs: SignedDuration) -> bool { self.wf() && rhs.wf() && representable(self.tot() + rhs.tot()) }
    open spec fn add_assign_spec(&self, rhs: SignedDuration) -> &SignedDuration { &of_tot(self.tot() + rhs.tot()) }
}
impl vstd::std_specs::ops::SubAssignSpecImpl for SignedDuration {
    open spec fn obeys_sub_assign_spec() -> bool { true }
    open spec fn sub_assign_req(&self, rhs: SignedDuration) -> bool { self.wf() && rhs.wf() && representable(self.tot() - rhs.tot()) }
    open spec fn sub_assign_spec(&self, rhs: SignedDuration) -> &SignedDuration { &of_tot(self.tot() - rhs.tot()) }
}
impl vstd::std_specs::ops::MulAssignSpecImpl<i32> for SignedDuration {
    open spec fn obeys_mul_assign_spec() -> bool { true }
    open spec fn mul_assign_req(&self, rhs: i32) -> bool { self.wf() && representable(self.tot() * rhs) }
    open spec fn mul_assign_spec(&self, rhs: i32) -> &SignedDuration { &of_tot(self.tot() * rhs) }
}
impl vstd::std_specs::ops::DivAssignSpecImpl<i32> for SignedDuration {
    open spec fn obeys_div_assign_spec() -> bool { true }
    open spec fn div_assign_req(&self, rhs: i32) -> bool { self.wf() && rhs != 0 && representable(tdiv(self.tot(), rhs as int)) }
    open spec fn div_assign_spec(&self, rhs: i32) -> &SignedDuration { &of_tot(tdiv(self.tot(), rhs as int)) }
}

// ---- lemmas (all proved, no assumptions) ----
// Euclidean division by a positive divisor, the only primitive fact used
pub proof fn lemma_euclid(x: int, d: int)
    requires x >= 0, d > 0,
    ensures x == (x / d) * d + x % d, 0 <= x % d < d, 0 <= x / d <= x,
{
    vstd::arithmetic::div_mod::lemma_fundamental_div_mod(x, d);
    vstd::arithmetic::div_mod::lemma_mod_bound(x, d);
    assert(d * (x / d) == (x / d) * d) by (nonlinear_arith);
    assert(0 <= x / d <= x) by (nonlinear_arith) requires x >= 0, d > 0, x == (x / d) * d + x % d, 0 <= x % d < d;
}
pub proof fn lemma_tdiv(a: int, b: int)
    requires b != 0,
    ensures a == tdiv(a, b) * b + trem(a, b), iabs(trem(a, b)) < iabs(b),
            a >= 0 ==> trem(a, b) >= 0, a <= 0 ==> trem(a, b) <= 0,
            iabs(tdiv(a, b)) <= iabs(a), iabs(trem(a, b)) <= iabs(a),
{
    let x = iabs(a); let d = iabs(b);
    lemma_euclid(x, d);
    let q = x / d;
    assert((-q) * b == -(q * b)) by (nonlinear_arith);
    assert(q * (-b) == -(q * b)) by (nonlinear_arith);
}
pub proof fn lemma_tdiv_unique(a: int, b: int, q: int, r: int)
    requires b != 0, a == q * b + r, iabs(r) < iabs(b), a >= 0 ==> r >= 0, a <= 0 ==> r <= 0,
    ensures q == tdiv(a, b), r == trem(a, b),
{
    lemma_tdiv(a, b);
    let q0 = tdiv(a, b); let r0 = trem(a, b);
    assert((q - q0) * b == r0 - r) by (nonlinear_arith) requires a == q * b + r, a == q0 * b + r0;
    assert(iabs(r0 - r) < iabs(b));
    assert(q == q0) by (nonlinear_arith) requires (q - q0) * b == r0 - r, iabs(r0 - r) < iabs(b), b != 0;
}
// vstd's model of exec `/` and `%` on signed machine integers (std_specs::ops::DivSpec/RemSpec) is tdiv/trem
pub proof fn lemma_rust_div(a: int, b: int)
    requires b != 0,
    ensures (if a == 0 { 0 } else if a > 0 { a / b } else { -((-a) / b) }) == tdiv(a, b),
            (if a == 0 { 0 } else if a > 0 { a % b } else { -((-a) % b) }) == trem(a, b),
{
    let x = iabs(a);
    vstd::arithmetic::div_mod::lemma_fundamental_div_mod(x, b);
    assert(b * (x / b) == (x / b) * b) by (nonlinear_arith);
    assert(0 <= x % b < iabs(b)) by (nonlinear_arith) requires b != 0;
    lemma_tdiv_unique(x, b, x / b, x % b);
    if a < 0 {
        lemma_tdiv(a, b);
        assert((-(x / b)) * b == -((x / b) * b)) by (nonlinear_arith);
        lemma_tdiv_unique(a, b, -(x / b), -(x % b));
    }
    if a == 0 { lemma_tdiv_unique(0, b, 0, 0); }
}

pub open spec fn signs_agree(s: int, n: int) -> bool { !(s > 0 && n < 0) && !(s < 0 && n > 0) }

// (secs, nanos) of a well-formed duration are exactly quotient and remainder of its total by 10^9
pub proof fn lemma_split(x: SignedDuration)
    requires x.wf(),
    ensures tdiv(x.tot(), 1_000_000_000) == x.secs, trem(x.tot(), 1_000_000_000) == x.nanos,
{
    lemma_tdiv_unique(x.tot(), 1_000_000_000, x.secs as int, x.nanos as int);
}
/// the unique well-formed duration denoting t (for representable t)
pub open spec fn of_tot(t: int) -> SignedDuration {
    SignedDuration { secs: tdiv(t, 1_000_000_000) as i64, nanos: trem(t, 1_000_000_000) as i32 }
}
pub proof fn lemma_canonical(t: int)
    ensures forall|x: SignedDuration| x.wf() && #[trigger] x.tot() == t ==> x == of_tot(t),
{
    assert forall|x: SignedDuration| x.wf() && #[trigger] x.tot() == t implies x == of_tot(t) by { lemma_split(x); }
}
// ---- multiplication of (secs, nanos) by a scalar, componentwise
pub proof fn lemma_mul_parts(s: int, n: int, k: int)
    requires signs_agree(s, n), -999_999_999 <= n <= 999_999_999, -0x8000_0000 <= k <= 0x7fff_ffff,
    ensures (s * 1_000_000_000 + n) * k == (s * k) * 1_000_000_000 + n * k,
            signs_agree(s * k, n * k),
            -999_999_999 * 0x8000_0000 <= n * k <= 999_999_999 * 0x8000_0000,
{
    assert((s * 1_000_000_000 + n) * k == (s * k) * 1_000_000_000 + n * k) by (nonlinear_arith);
    assert(signs_agree(s * k, n * k)) by (nonlinear_arith) requires signs_agree(s, n);
    assert(-999_999_999 * 0x8000_0000 <= n * k <= 999_999_999 * 0x8000_0000) by (nonlinear_arith)
        requires -999_999_999 <= n <= 999_999_999, -0x8000_0000 <= k <= 0x7fff_ffff;
}
pub proof fn lemma_mul_sign(a: int, k: int)
    ensures a * k > 0 <==> ((a > 0 && k > 0) || (a < 0 && k < 0)),
            a * k < 0 <==> ((a > 0 && k < 0) || (a < 0 && k > 0)),
{
    assert(a * k > 0 <==> ((a > 0 && k > 0) || (a < 0 && k < 0))) by (nonlinear_arith);
    assert(a * k < 0 <==> ((a > 0 && k < 0) || (a < 0 && k > 0))) by (nonlinear_arith);
}
// ---- division of (secs, nanos) by a scalar, the way checked_div does it
pub proof fn lemma_div_parts(s: int, n: int, d: int)
    requires signs_agree(s, n), -999_999_999 <= n <= 999_999_999, d != 0,
    ensures ({
        let q1 = tdiv(s, d); let r1 = trem(s, d); let q2 = tdiv(n, d); let r2 = trem(n, d);
        let l = r1 * 1_000_000_000 + r2; let q3 = tdiv(l, d);
        &&& tdiv(s * 1_000_000_000 + n, d) == q1 * 1_000_000_000 + q2 + q3
        &&& -999_999_999 <= q2 + q3 <= 999_999_999
        &&& -999_999_999 <= q3 <= 999_999_999
        &&& signs_agree(q1, q2 + q3)
        &&& -iabs(d) * 1_000_000_000 < r1 * 1_000_000_000 < iabs(d) * 1_000_000_000
        &&& -iabs(d) * 1_000_000_001 < l < iabs(d) * 1_000_000_001
    }),
{
    let t = s * 1_000_000_000 + n;
    let q1 = tdiv(s, d); let r1 = trem(s, d); let q2 = tdiv(n, d); let r2 = trem(n, d);
    let l = r1 * 1_000_000_000 + r2; let q3 = tdiv(l, d); let r3 = trem(l, d);
    lemma_tdiv(s, d); lemma_tdiv(n, d); lemma_tdiv(l, d);
    let m = q2 + q3;
    let big = n + r1 * 1_000_000_000;
    assert((q1 * 1_000_000_000 + m) * d == (q1 * d) * 1_000_000_000 + q2 * d + q3 * d) by (nonlinear_arith) requires m == q2 + q3;
    assert(t == (q1 * 1_000_000_000 + m) * d + r3);
    lemma_tdiv_unique(t, d, q1 * 1_000_000_000 + m, r3);
    // |n + r1*1e9| < |d|*1e9 and it equals m*d + r3 with r3 between 0 and it
    assert(m * d == q2 * d + q3 * d) by (nonlinear_arith) requires m == q2 + q3;
    assert(big == m * d + r3);
    let x = iabs(d) * 1_000_000_000;
    assert(-x < m * d < x);
    assert(-1_000_000_000 < m < 1_000_000_000) by (nonlinear_arith) requires -x < m * d < x, x == iabs(d) * 1_000_000_000, d != 0;
    assert(-x < q3 * d < x);
    assert(-1_000_000_000 < q3 < 1_000_000_000) by (nonlinear_arith) requires -x < q3 * d < x, x == iabs(d) * 1_000_000_000, d != 0;
    // signs: q1*d and m*d are both >= 0 or both <= 0
    assert(signs_agree(q1, m)) by (nonlinear_arith)
        requires d != 0, (q1 * d >= 0 && m * d >= 0) || (q1 * d <= 0 && m * d <= 0);
}

// ==== extracted from /repo ====
pub const NANOS_PER_SEC: i32 = 1_000_000_000;

pub const NANOS_PER_MILLI: i32 = 1_000_000;

pub const NANOS_PER_MICRO: i32 = 1_000;

pub const MILLIS_PER_SEC: i64 = 1_000;

pub const MICROS_PER_SEC: i64 = 1_000_000;

pub const SECS_PER_MINUTE: i64 = 60;

pub const MINS_PER_HOUR: i64 = 60;

#[derive(Clone, Copy, PartialEq, Eq, Structural)]
pub struct SignedDuration {
    pub secs: i64,
    pub nanos: i32,
}

impl SignedDuration {
    pub open spec fn cmp_spec(self, o: SignedDuration) -> int {
        if self.secs < o.secs { -1int } else if self.secs > o.secs { 1int } else { if self.nanos < o.nanos { -1int } else if self.nanos > o.nanos { 1int } else { 0int } }
    }
    pub fn cmp_exec(&self, o: &SignedDuration) -> (r: i8) ensures r as int == self.cmp_spec(*o), -1 <= r <= 1 {
        if self.secs < o.secs { -1 } else if self.secs > o.secs { 1 } else { if self.nanos < o.nanos { -1 } else if self.nanos > o.nanos { 1 } else { 0 } }
    }
}
impl vstd::std_specs::cmp::PartialOrdSpecImpl for SignedDuration {
    open spec fn obeys_partial_cmp_spec() -> bool { true }
    open spec fn partial_cmp_spec(&self, other: &SignedDuration) -> Option<core::cmp::Ordering> {
        Some(if self.cmp_spec(*other) < 0 { core::cmp::Ordering::Less } else if self.cmp_spec(*other) > 0 { core::cmp::Ordering::Greater } else { core::cmp::Ordering::Equal })
    }
}
impl core::cmp::PartialOrd for SignedDuration {
    fn partial_cmp(&self, other: &SignedDuration) -> (r: Option<core::cmp::Ordering>) {
        let c = self.cmp_exec(other);
        if c < 0 { Some(core::cmp::Ordering::Less) } else if c > 0 { Some(core::cmp::Ordering::Greater) } else { Some(core::cmp::Ordering::Equal) }
    }
}

impl SignedDuration { pub const ZERO: SignedDuration = SignedDuration { secs: 0, nanos: 0 }; }

impl SignedDuration { pub const MIN: SignedDuration =
        SignedDuration { secs: i64::MIN, nanos: -(NANOS_PER_SEC - 1) }; }

impl SignedDuration { pub const MAX: SignedDuration =
        SignedDuration { secs: i64::MAX, nanos: NANOS_PER_SEC - 1 }; }

impl SignedDuration {
// @fn SignedDuration::new @src src/signed_duration.rs:395
#[verifier::spinoff_prover]

    pub const fn new(mut secs: i64, mut nanos: i32) -> (r: SignedDuration)
    requires
        representable(secs as int * 1_000_000_000 + nanos as int),
    ensures
        r.wf(), r.tot() == secs as int * 1_000_000_000 + nanos as int,
{
        
        if !(-NANOS_PER_SEC < nanos && nanos < NANOS_PER_SEC) {
            
            let addsecs = nanos / NANOS_PER_SEC;
            secs = match secs.checked_add(addsecs as i64) {
                Some(secs) => secs,
                None => panic!(),
            };
            
            nanos = nanos % NANOS_PER_SEC;
        }
        
        
        if nanos == 0 || secs == 0 || secs.signum() == (nanos.signum() as i64)
        {
            return SignedDuration::new_unchecked(secs, nanos);
        }
        
        
        if secs < 0 {
            { let verif_da: bool = nanos > 0; assert(verif_da); };
            
            
            
            secs += 1;
            
            
            
            
            nanos -= NANOS_PER_SEC;
        } else {
            { let verif_da: bool = secs > 0; assert(verif_da); };
            { let verif_da: bool = nanos < 0; assert(verif_da); };
            
            
            
            
            secs -= 1;
            
            
            
            
            nanos += NANOS_PER_SEC;
        }
        SignedDuration::new_unchecked(secs, nanos)
    }
}

impl SignedDuration {
// @fn SignedDuration::new_without_nano_overflow @src src/signed_duration.rs:453
#[verifier::spinoff_prover]

    pub const fn new_without_nano_overflow(
        secs: i64,
        nanos: i32,
    ) -> (r: SignedDuration)
    requires
        -999_999_999 <= nanos <= 999_999_999,
    ensures
        r.secs == secs, r.nanos == nanos, r.tot() == secs as int * 1_000_000_000 + nanos as int, signs_agree(secs as int, nanos as int) ==> r.wf(),
{
        assert!(nanos <= 999_999_999);
        assert!(nanos >= -999_999_999);
        SignedDuration::new_unchecked(secs, nanos)
    }
}

impl SignedDuration {
// @fn SignedDuration::new_unchecked @src src/signed_duration.rs:474
#[verifier::spinoff_prover]

    pub const fn new_unchecked(secs: i64, nanos: i32) -> (r: SignedDuration)
    requires
        -999_999_999 <= nanos <= 999_999_999,
    ensures
        r.secs == secs, r.nanos == nanos, r.tot() == secs as int * 1_000_000_000 + nanos as int, signs_agree(secs as int, nanos as int) ==> r.wf(),
{
        { let verif_da: bool = nanos <= 999_999_999; assert(verif_da); };
        { let verif_da: bool = nanos >= -999_999_999; assert(verif_da); };
        SignedDuration { secs, nanos }
    }
}

impl SignedDuration {
// @fn SignedDuration::from_secs @src src/signed_duration.rs:492
#[verifier::spinoff_prover]

    pub const fn from_secs(secs: i64) -> (r: SignedDuration)
    ensures
        r.wf(), r.tot() == secs as int * 1_000_000_000, r.secs == secs, r.nanos == 0,
{
        SignedDuration::new_unchecked(secs, 0)
    }
}

impl SignedDuration {
// @fn SignedDuration::from_millis @src src/signed_duration.rs:518
#[verifier::spinoff_prover]

    pub const fn from_millis(millis: i64) -> (r: SignedDuration)
    ensures
        r.wf(), r.tot() == millis as int * 1_000_000,
{
        
        let secs = millis / MILLIS_PER_SEC;
        
        
        
        let nanos = (millis % MILLIS_PER_SEC) as i32 * NANOS_PER_MILLI;
        SignedDuration::new_unchecked(secs, nanos)
    }
}

impl SignedDuration {
// @fn SignedDuration::from_micros @src src/signed_duration.rs:550
#[verifier::spinoff_prover]

    pub const fn from_micros(micros: i64) -> (r: SignedDuration)
    ensures
        r.wf(), r.tot() == micros as int * 1_000,
{
        
        let secs = micros / MICROS_PER_SEC;
        
        
        
        let nanos = (micros % MICROS_PER_SEC) as i32 * NANOS_PER_MICRO;
        SignedDuration::new_unchecked(secs, nanos)
    }
}

impl SignedDuration {
// @fn SignedDuration::from_nanos @src src/signed_duration.rs:582
#[verifier::spinoff_prover]

    pub const fn from_nanos(nanos: i64) -> (r: SignedDuration)
    ensures
        r.wf(), r.tot() == nanos as int,
{
        
        let secs = nanos / (NANOS_PER_SEC as i64);
        
        let nanos = (nanos % (NANOS_PER_SEC as i64)) as i32;
        SignedDuration::new_unchecked(secs, nanos)
    }
}

impl SignedDuration {
// @fn SignedDuration::from_hours @src src/signed_duration.rs:612
#[verifier::spinoff_prover]

    pub const fn from_hours(hours: i64) -> (r: SignedDuration)
    requires
        representable(hours as int * 3_600_000_000_000),
    ensures
        r.wf(), r.tot() == hours as int * 3_600_000_000_000,
{
        
        let MIN_HOUR: i64 = i64::MIN / (SECS_PER_MINUTE * MINS_PER_HOUR);
        
        let MAX_HOUR: i64 = i64::MAX / (SECS_PER_MINUTE * MINS_PER_HOUR);
        
        if hours < MIN_HOUR {
            panic!()
        }
        
        if hours > MAX_HOUR {
            panic!()
        }
        SignedDuration::from_secs(hours * MINS_PER_HOUR * SECS_PER_MINUTE)
    }
}

impl SignedDuration {
// @fn SignedDuration::from_mins @src src/signed_duration.rs:650
#[verifier::spinoff_prover]

    pub const fn from_mins(minutes: i64) -> (r: SignedDuration)
    requires
        representable(minutes as int * 60_000_000_000),
    ensures
        r.wf(), r.tot() == minutes as int * 60_000_000_000,
{
        
        let MIN_MINUTE: i64 = i64::MIN / SECS_PER_MINUTE;
        
        let MAX_MINUTE: i64 = i64::MAX / SECS_PER_MINUTE;
        
        if minutes < MIN_MINUTE {
            panic!()
        }
        
        if minutes > MAX_MINUTE {
            panic!()
        }
        SignedDuration::from_secs(minutes * SECS_PER_MINUTE)
    }
}

impl SignedDuration {
// @fn SignedDuration::is_zero @src src/signed_duration.rs:700
#[verifier::spinoff_prover]

    pub const fn is_zero(&self) -> (r: bool)
    requires
        self.wf(),
    ensures
        r == (self.tot() == 0),
{
        self.secs == 0 && self.nanos == 0
    }
}

impl SignedDuration {
// @fn SignedDuration::as_secs @src src/signed_duration.rs:724
#[verifier::spinoff_prover]

    pub const fn as_secs(&self) -> (r: i64)
    requires
        self.wf(),
    ensures
        r as int == tdiv(self.tot(), 1_000_000_000), r == self.secs,
{
        proof { lemma_split(*self); }

        self.secs
    }
}

impl SignedDuration {
// @fn SignedDuration::subsec_millis @src src/signed_duration.rs:749
#[verifier::spinoff_prover]

    pub const fn subsec_millis(&self) -> (r: i32)
    requires
        self.wf(),
    ensures
        r as int == tdiv(trem(self.tot(), 1_000_000_000), 1_000_000),
{
        proof { lemma_split(*self); lemma_rust_div(self.nanos as int, 1_000_000); }

        
        self.nanos / NANOS_PER_MILLI
    }
}

impl SignedDuration {
// @fn SignedDuration::subsec_micros @src src/signed_duration.rs:775
#[verifier::spinoff_prover]

    pub const fn subsec_micros(&self) -> (r: i32)
    requires
        self.wf(),
    ensures
        r as int == tdiv(trem(self.tot(), 1_000_000_000), 1_000),
{
        proof { lemma_split(*self); lemma_rust_div(self.nanos as int, 1_000); }

        
        self.nanos / NANOS_PER_MICRO
    }
}

impl SignedDuration {
// @fn SignedDuration::subsec_nanos @src src/signed_duration.rs:801
#[verifier::spinoff_prover]

    pub const fn subsec_nanos(&self) -> (r: i32)
    requires
        self.wf(),
    ensures
        r as int == trem(self.tot(), 1_000_000_000), r == self.nanos,
{
        proof { lemma_split(*self); }

        self.nanos
    }
}

impl SignedDuration {
// @fn SignedDuration::as_millis @src src/signed_duration.rs:824
#[verifier::spinoff_prover]

    pub const fn as_millis(&self) -> (r: i128)
    requires
        self.wf(),
    ensures
        r as int == tdiv(self.tot(), 1_000_000),
{
        
        let millis = (self.secs as i128) * (MILLIS_PER_SEC as i128);
        proof { assert(millis == self.secs as int * 1_000); }

        
        let subsec_millis = (self.nanos / NANOS_PER_MILLI) as i128;
        
        
        millis + subsec_millis
    }
}

impl SignedDuration {
// @fn SignedDuration::as_micros @src src/signed_duration.rs:853
#[verifier::spinoff_prover]

    pub const fn as_micros(&self) -> (r: i128)
    requires
        self.wf(),
    ensures
        r as int == tdiv(self.tot(), 1_000),
{
        
        let micros = (self.secs as i128) * (MICROS_PER_SEC as i128);
        proof { assert(micros == self.secs as int * 1_000_000); }

        
        let subsec_micros = (self.nanos / NANOS_PER_MICRO) as i128;
        
        
        micros + subsec_micros
    }
}

impl SignedDuration {
// @fn SignedDuration::as_nanos @src src/signed_duration.rs:882
#[verifier::spinoff_prover]

    pub const fn as_nanos(&self) -> (r: i128)
    requires
        self.wf(),
    ensures
        r as int == self.tot(),
{
        
        let nanos = (self.secs as i128) * (NANOS_PER_SEC as i128);
        proof { assert(nanos == self.secs as int * 1_000_000_000); }

        
        
        nanos + (self.nanos as i128)
    }
}

impl SignedDuration {
// @fn SignedDuration::checked_add @src src/signed_duration.rs:916
#[verifier::spinoff_prover]

    pub const fn checked_add(
        self,
        rhs: SignedDuration,
    ) -> (r: Option<SignedDuration>)
    requires
        self.wf(), rhs.wf(),
    ensures
        r is Some ==> r->0 == of_tot(self.tot() + rhs.tot()),
    r is Some ==> r->0.wf() && r->0.tot() == self.tot() + rhs.tot(),
    r is None <==> !representable(self.tot() + rhs.tot()),
{
        proof { lemma_canonical(self.tot() + rhs.tot()); }

        let Some(mut secs) = self.secs.checked_add(rhs.secs) else {
            return None;
        };
        
        
        let mut nanos = self.nanos + rhs.nanos;
        
        
        
        
        
        
        
        

        
        if nanos != 0 {
            if nanos >= NANOS_PER_SEC {
                nanos -= NANOS_PER_SEC;
                secs = match secs.checked_add(1) {
                    None => return None,
                    Some(secs) => secs,
                };
            } else if nanos <= -NANOS_PER_SEC {
                nanos += NANOS_PER_SEC;
                secs = match secs.checked_sub(1) {
                    None => return None,
                    Some(secs) => secs,
                };
            }
            if secs != 0
                && nanos != 0
                && secs.signum() != (nanos.signum() as i64)
            {
                if secs < 0 {
                    { let verif_da: bool = nanos > 0; assert(verif_da); };
                    
                    secs += 1;
                    
                    nanos -= NANOS_PER_SEC;
                } else {
                    { let verif_da: bool = secs > 0; assert(verif_da); };
                    { let verif_da: bool = nanos < 0; assert(verif_da); };
                    
                    secs -= 1;
                    
                    nanos += NANOS_PER_SEC;
                }
            }
        }
        Some(SignedDuration::new_unchecked(secs, nanos))
    }
}

impl SignedDuration {
// @fn SignedDuration::saturating_add @src src/signed_duration.rs:990
#[verifier::spinoff_prover]

    pub const fn saturating_add(self, rhs: SignedDuration) -> (r: SignedDuration)
    requires
        self.wf(), rhs.wf(),
    ensures
        r.wf(),
    representable(self.tot() + rhs.tot()) ==> r.tot() == self.tot() + rhs.tot(),
    !representable(self.tot() + rhs.tot()) ==> r == sat(self.tot() + rhs.tot()),
{
        let Some(sum) = self.checked_add(rhs) else {
            return if rhs.is_negative() {
                SignedDuration::MIN
            } else {
                SignedDuration::MAX
            };
        };
        sum
    }
}

impl SignedDuration {
// @fn SignedDuration::checked_sub @src src/signed_duration.rs:1021
#[verifier::spinoff_prover]

    pub const fn checked_sub(
        self,
        rhs: SignedDuration,
    ) -> (r: Option<SignedDuration>)
    requires
        self.wf(), rhs.wf(),
    ensures
        r is Some ==> r->0 == of_tot(self.tot() - rhs.tot()),
    r is Some ==> r->0.wf() && r->0.tot() == self.tot() - rhs.tot(),
    r is None <==> !representable(self.tot() - rhs.tot()),
{
        proof { lemma_canonical(self.tot() - rhs.tot()); }

        match rhs.checked_neg() {
            Some(rhs) => self.checked_add(rhs),
            
            
            
            None => {
                let one = SignedDuration::new_unchecked(1, 0);
                let Some(lhs) = self.checked_add(one) else { return None };
                let Some(rhs) = rhs.checked_add(one) else { return None };
                let Some(rhs) = rhs.checked_neg() else { return None };
                lhs.checked_add(rhs)
            }
        }
    }
}

impl SignedDuration {
// @fn SignedDuration::saturating_sub @src src/signed_duration.rs:1057
#[verifier::spinoff_prover]

    pub const fn saturating_sub(self, rhs: SignedDuration) -> (r: SignedDuration)
    requires
        self.wf(), rhs.wf(),
    ensures
        r.wf(),
    representable(self.tot() - rhs.tot()) ==> r.tot() == self.tot() - rhs.tot(),
    !representable(self.tot() - rhs.tot()) ==> r == sat(self.tot() - rhs.tot()),
{
        let Some(diff) = self.checked_sub(rhs) else {
            return if rhs.is_positive() {
                SignedDuration::MIN
            } else {
                SignedDuration::MAX
            };
        };
        diff
    }
}

impl SignedDuration {
// @fn SignedDuration::checked_mul @src src/signed_duration.rs:1083
#[verifier::spinoff_prover]

    pub const fn checked_mul(self, rhs: i32) -> (r: Option<SignedDuration>)
    requires
        self.wf(),
    ensures
        r is Some ==> r->0 == of_tot(self.tot() * rhs),
    r is Some ==> r->0.wf() && r->0.tot() == self.tot() * rhs,
    r is None <==> !representable(self.tot() * rhs),
{
        proof { lemma_canonical(self.tot() * rhs); lemma_mul_parts(self.secs as int, self.nanos as int, rhs as int); }

        let rhs = rhs as i64;
        
        let nanos = (self.nanos as i64) * rhs;
        
        let addsecs = nanos / (NANOS_PER_SEC as i64);
        
        let nanos = (nanos % (NANOS_PER_SEC as i64)) as i32;
        let Some(secs) = self.secs.checked_mul(rhs) else { return None };
        let Some(secs) = secs.checked_add(addsecs) else { return None };
        Some(SignedDuration::new_unchecked(secs, nanos))
    }
}

impl SignedDuration {
// @fn SignedDuration::saturating_mul @src src/signed_duration.rs:1114
#[verifier::spinoff_prover]

    pub const fn saturating_mul(self, rhs: i32) -> (r: SignedDuration)
    requires
        self.wf(),
    ensures
        r.wf(),
    representable(self.tot() * rhs) ==> r.tot() == self.tot() * rhs,
    !representable(self.tot() * rhs) ==> r == sat(self.tot() * rhs),
{
        proof {
            lemma_mul_sign(self.tot(), rhs as int);
            let a: int = if self.tot() > 0 { 1 } else if self.tot() < 0 { -1 } else { 0 };
            let b: int = if rhs > 0 { 1 } else if rhs < 0 { -1 } else { 0 };
            lemma_mul_sign(a, b);
            assert(-1 <= a * b <= 1) by (nonlinear_arith) requires -1 <= a <= 1, -1 <= b <= 1;
        }

        let Some(product) = self.checked_mul(rhs) else {
            let sign = (self.signum() as i64) * (rhs as i64).signum();
            return if sign.is_negative() {
                SignedDuration::MIN
            } else {
                SignedDuration::MAX
            };
        };
        product
    }
}

impl SignedDuration {
// @fn SignedDuration::checked_div @src src/signed_duration.rs:1155
#[verifier::spinoff_prover]

    pub const fn checked_div(self, rhs: i32) -> (r: Option<SignedDuration>)
    requires
        self.wf(),
    ensures
        r is Some ==> r->0 == of_tot(tdiv(self.tot(), rhs as int)),
    r is Some ==> r->0.wf() && r->0.tot() == tdiv(self.tot(), rhs as int),
    r is None <==> (rhs == 0 || !representable(tdiv(self.tot(), rhs as int))),
{
        proof {
            if rhs != 0 {
                let s = self.secs as int; let n = self.nanos as int; let d = rhs as int;
                lemma_rust_div(s, d); lemma_rust_div(n, d);
                lemma_tdiv(s, d); lemma_tdiv(n, d);
                lemma_div_parts(s, n, d);
            }
        }

        if rhs == 0 || (self.secs == i64::MIN && rhs == -1) {
            return None;
        }
        
        let secs = self.secs / (rhs as i64);
        
        let addsecs = self.secs % (rhs as i64);
        
        let mut nanos = self.nanos / rhs;
        
        let addnanos = self.nanos % rhs;
        let leftover_nanos =
            (addsecs * (NANOS_PER_SEC as i64)) + (addnanos as i64);
        proof {
            lemma_rust_div(leftover_nanos as int, rhs as int);
            lemma_tdiv(leftover_nanos as int, rhs as int);
        }

        nanos += (leftover_nanos / (rhs as i64)) as i32;
        { let verif_da: bool = nanos < NANOS_PER_SEC; assert(verif_da); };
        proof { lemma_canonical(tdiv(self.tot(), rhs as int)); }

        Some(SignedDuration::new_unchecked(secs, nanos))
    }
}

impl SignedDuration {
// @fn SignedDuration::as_hours @src src/signed_duration.rs:1657
#[verifier::spinoff_prover]

    pub const fn as_hours(&self) -> (r: i64)
    requires
        self.wf(),
    ensures
        r as int == tdiv(self.tot(), 3_600_000_000_000),
{
        self.as_secs() / (MINS_PER_HOUR * SECS_PER_MINUTE)
    }
}

impl SignedDuration {
// @fn SignedDuration::as_mins @src src/signed_duration.rs:1680
#[verifier::spinoff_prover]

    pub const fn as_mins(&self) -> (r: i64)
    requires
        self.wf(),
    ensures
        r as int == tdiv(self.tot(), 60_000_000_000),
{
        self.as_secs() / SECS_PER_MINUTE
    }
}

impl SignedDuration {
// @fn SignedDuration::abs @src src/signed_duration.rs:1703
#[verifier::spinoff_prover]

    pub const fn abs(self) -> (r: SignedDuration)
    requires
        self.wf(), self.secs != i64::MIN,
    ensures
        r.wf(), r.tot() == iabs(self.tot()),
{
        SignedDuration::new_unchecked(self.secs.abs(), self.nanos.abs())
    }
}

impl SignedDuration {
// @fn SignedDuration::unsigned_abs @src src/signed_duration.rs:1726
#[verifier::spinoff_prover]

    pub const fn unsigned_abs(self) -> (r: Duration)
    requires
        self.wf(),
    ensures
        dur_ns(r) == iabs(self.tot()),
{
        Duration::new(self.secs.unsigned_abs(), self.nanos.unsigned_abs())
    }
}

impl SignedDuration {
// @fn SignedDuration::checked_neg @src src/signed_duration.rs:1759
#[verifier::spinoff_prover]

    pub const fn checked_neg(self) -> (r: Option<SignedDuration>)
    requires
        self.wf(),
    ensures
        r is Some ==> r->0 == of_tot(-self.tot()),
    r is Some ==> r->0.wf() && r->0.tot() == -self.tot(),
    r is None <==> self.secs == i64::MIN,
{
        proof { lemma_canonical(-self.tot()); }

        let Some(secs) = self.secs.checked_neg() else { return None };
        Some(SignedDuration::new_unchecked(
            secs,
            
            -self.nanos,
        ))
    }
}

impl SignedDuration {
// @fn SignedDuration::signum @src src/signed_duration.rs:1784
#[verifier::spinoff_prover]

    pub const fn signum(self) -> (r: i8)
    requires
        self.wf(),
    ensures
        r as int == (if self.tot() > 0 { 1int } else if self.tot() < 0 { -1int } else { 0int }),
{
        if self.is_zero() {
            0
        } else if self.is_positive() {
            1
        } else {
            { let verif_da: bool = self.is_negative(); assert(verif_da); };
            -1
        }
    }
}

impl SignedDuration {
// @fn SignedDuration::is_positive @src src/signed_duration.rs:1807
#[verifier::spinoff_prover]

    pub const fn is_positive(&self) -> (r: bool)
    requires
        self.wf(),
    ensures
        r == (self.tot() > 0),
{
        self.secs.is_positive() || self.nanos.is_positive()
    }
}

impl SignedDuration {
// @fn SignedDuration::is_negative @src src/signed_duration.rs:1823
#[verifier::spinoff_prover]

    pub const fn is_negative(&self) -> (r: bool)
    requires
        self.wf(),
    ensures
        r == (self.tot() < 0),
{
        self.secs.is_negative() || self.nanos.is_negative()
    }
}

impl core::ops::Neg for SignedDuration {
type Output = SignedDuration;

// @fn <SignedDuration as core::ops::Neg>::neg @src src/signed_duration.rs:2179

    fn neg(self) -> SignedDuration
{
        self.checked_neg().expect("overflow when negating signed duration")
    }
}

impl core::ops::Add for SignedDuration {
type Output = SignedDuration;

// @fn <SignedDuration as core::ops::Add>::add @src src/signed_duration.rs:2188

    fn add(self, rhs: SignedDuration) -> SignedDuration
{
        self.checked_add(rhs).expect("overflow when adding signed durations")
    }
}

impl core::ops::Sub for SignedDuration {
type Output = SignedDuration;

// @fn <SignedDuration as core::ops::Sub>::sub @src src/signed_duration.rs:2204

    fn sub(self, rhs: SignedDuration) -> SignedDuration
{
        self.checked_sub(rhs)
            .expect("overflow when subtracting signed durations")
    }
}

impl core::ops::Mul<i32> for SignedDuration {
type Output = SignedDuration;

// @fn <SignedDuration as core::ops::Mul<i32>>::mul @src src/signed_duration.rs:2221

    fn mul(self, rhs: i32) -> SignedDuration
{
        self.checked_mul(rhs)
            .expect("overflow when multiplying signed duration by scalar")
    }
}

impl core::ops::Div<i32> for SignedDuration {
type Output = SignedDuration;

// @fn <SignedDuration as core::ops::Div<i32>>::div @src src/signed_duration.rs:2259

    fn div(self, rhs: i32) -> SignedDuration
{
        self.checked_div(rhs)
            .expect("overflow when dividing signed duration by scalar")
    }
}

impl core::ops::Mul<SignedDuration> for i32 {
type Output = SignedDuration;

// @fn <i32 as core::ops::Mul<SignedDuration>>::mul @src src/signed_duration.rs:2243

    fn mul(self, rhs: SignedDuration) -> SignedDuration
{
        rhs * self
    }
}

impl core::ops::AddAssign for SignedDuration {
// @fn <SignedDuration as core::ops::AddAssign>::add_assign @src src/signed_duration.rs:2195

    fn add_assign(&mut self, rhs: SignedDuration)
{
        *self = *self + rhs;
    }
}

impl core::ops::SubAssign for SignedDuration {
// @fn <SignedDuration as core::ops::SubAssign>::sub_assign @src src/signed_duration.rs:2212

    fn sub_assign(&mut self, rhs: SignedDuration)
{
        *self = *self - rhs;
    }
}

impl core::ops::MulAssign<i32> for SignedDuration {
// @fn <SignedDuration as core::ops::MulAssign<i32>>::mul_assign @src src/signed_duration.rs:2250

    fn mul_assign(&mut self, rhs: i32)
{
        *self = *self * rhs;
    }
}

impl core::ops::DivAssign<i32> for SignedDuration {
// @fn <SignedDuration as core::ops::DivAssign<i32>>::div_assign @src src/signed_duration.rs:2267

    fn div_assign(&mut self, rhs: i32)
{
        *self = *self / rhs;
    }
}

// ==== end extracted ====


} // verus!
fn main() {}
