#![allow(unused, non_snake_case, non_upper_case_globals)]
use vstd::prelude::*;
verus! {
// ---- include lib/stdspecs.vrs ----
// Specifications of core integer methods that vstd 0.2026.09.13 does not provide (trusted; each mirrors the std documentation).
// Included by every unit so that an edited body that starts using one of them is still decided.
pub assume_specification[ i8::div_euclid ](x: i8, y: i8) -> (r: i8) requires y != 0, !(x == i8::MIN && y == -1), ensures y > 0 ==> r as int == (x as int) / (y as int);
pub assume_specification[ i8::rem_euclid ](x: i8, y: i8) -> (r: i8) requires y != 0, !(x == i8::MIN && y == -1), ensures y > 0 ==> r as int == (x as int) % (y as int), y < 0 ==> r as int == (x as int) % (-(y as int));
pub assume_specification[ i8::abs ](x: i8) -> (r: i8) requires x != i8::MIN, ensures r as int == (if x < 0 { -(x as int) } else { x as int });
pub assume_specification[ i8::signum ](x: i8) -> (r: i8) ensures r == (if x > 0 { 1int } else if x < 0 { -1int } else { 0int });
pub assume_specification[ i8::is_positive ](x: i8) -> (r: bool) ensures r == (x > 0);
pub assume_specification[ i8::is_negative ](x: i8) -> (r: bool) ensures r == (x < 0);
pub assume_specification[ i8::checked_neg ](x: i8) -> (r: Option<i8>) ensures x == i8::MIN ==> r.is_none(), x != i8::MIN ==> r == Some((-x) as i8);
pub assume_specification[ i8::saturating_add ](x: i8, y: i8) -> (r: i8) ensures i8::MIN <= x + y <= i8::MAX ==> r == x + y, x + y > i8::MAX ==> r == i8::MAX, x + y < i8::MIN ==> r == i8::MIN;
pub assume_specification[ i8::saturating_sub ](x: i8, y: i8) -> (r: i8) ensures i8::MIN <= x - y <= i8::MAX ==> r == x - y, x - y > i8::MAX ==> r == i8::MAX, x - y < i8::MIN ==> r == i8::MIN;
pub assume_specification[ i8::saturating_neg ](x: i8) -> (r: i8) ensures x == i8::MIN ==> r == i8::MAX, x != i8::MIN ==> r == -x;
pub assume_specification[ i8::unsigned_abs ](x: i8) -> (r: u8) ensures r as int == (if x < 0 { -(x as int) } else { x as int });
pub assume_specification[ i8::checked_abs ](x: i8) -> (r: Option<i8>) ensures x == i8::MIN ==> r.is_none(), x != i8::MIN ==> r == Some((if x < 0 { -x } else { x as int }) as i8);
pub assume_specification[ i16::div_euclid ](x: i16, y: i16) -> (r: i16) requires y != 0, !(x == i16::MIN && y == -1), ensures y > 0 ==> r as int == (x as int) / (y as int);
pub assume_specification[ i16::rem_euclid ](x: i16, y: i16) -> (r: i16) requires y != 0, !(x == i16::MIN && y == -1), ensures y > 0 ==> r as int == (x as int) % (y as int), y < 0 ==> r as int == (x as int) % (-(y as int));
pub assume_specification[ i16::abs ](x: i16) -> (r: i16) requires x != i16::MIN, ensures r as int == (if x < 0 { -(x as int) } else { x as int });
pub assume_specification[ i16::signum ](x: i16) -> (r: i16) ensures r == (if x > 0 { 1int } else if x < 0 { -1int } else { 0int });
pub assume_specification[ i16::is_positive ](x: i16) -> (r: bool) ensures r == (x > 0);
pub assume_specification[ i16::is_negative ](x: i16) -> (r: bool) ensures r == (x < 0);
pub assume_specification[ i16::checked_neg ](x: i16) -> (r: Option<i16>) ensures x == i16::MIN ==> r.is_none(), x != i16::MIN ==> r == Some((-x) as i16);
pub assume_specification[ i16::saturating_add ](x: i16, y: i16) -> (r: i16) ensures i16::MIN <= x + y <= i16::MAX ==> r == x + y, x + y > i16::MAX ==> r == i16::MAX, x + y < i16::MIN ==> r == i16::MIN;
pub assume_specification[ i16::saturating_sub ](x: i16, y: i16) -> (r: i16) ensures i16::MIN <= x - y <= i16::MAX ==> r == x - y, x - y > i16::MAX ==> r == i16::MAX, x - y < i16::MIN ==> r == i16::MIN;
pub assume_specification[ i16::saturating_neg ](x: i16) -> (r: i16) ensures x == i16::MIN ==> r == i16::MAX, x != i16::MIN ==> r == -x;
pub assume_specification[ i16::unsigned_abs ](x: i16) -> (r: u16) ensures r as int == (if x < 0 { -(x as int) } else { x as int });
pub assume_specification[ i16::checked_abs ](x: i16) -> (r: Option<i16>) ensures x == i16::MIN ==> r.is_none(), x != i16::MIN ==> r == Some((if x < 0 { -x } else { x as int }) as i16);
pub assume_specification[ i32::div_euclid ](x: i32, y: i32) -> (r: i32) requires y != 0, !(x == i32::MIN && y == -1), ensures y > 0 ==> r as int == (x as int) / (y as int);
pub assume_specification[ i32::rem_euclid ](x: i32, y: i32) -> (r: i32) requires y != 0, !(x == i32::MIN && y == -1), ensures y > 0 ==> r as int == (x as int) % (y as int), y < 0 ==> r as int == (x as int) % (-(y as int));
pub assume_specification[ i32::abs ](x: i32) -> (r: i32) requires x != i32::MIN, ensures r as int == (if x < 0 { -(x as int) } else { x as int });
pub assume_specification[ i32::signum ](x: i32) -> (r: i32) ensures r == (if x > 0 { 1int } else if x < 0 { -1int } else { 0int });
pub assume_specification[ i32::is_positive ](x: i32) -> (r: bool) ensures r == (x > 0);
pub assume_specification[ i32::is_negative ](x: i32) -> (r: bool) ensures r == (x < 0);
pub assume_specification[ i32::checked_neg ](x: i32) -> (r: Option<i32>) ensures x == i32::MIN ==> r.is_none(), x != i32::MIN ==> r == Some((-x) as i32);
pub assume_specification[ i32::saturating_add ](x: i32, y: i32) -> (r: i32) ensures i32::MIN <= x + y <= i32::MAX ==> r == x + y, x + y > i32::MAX ==> r == i32::MAX, x + y < i32::MIN ==> r == i32::MIN;
pub assume_specification[ i32::saturating_sub ](x: i32, y: i32) -> (r: i32) ensures i32::MIN <= x - y <= i32::MAX ==> r == x - y, x - y > i32::MAX ==> r == i32::MAX, x - y < i32::MIN ==> r == i32::MIN;
pub assume_specification[ i32::saturating_neg ](x: i32) -> (r: i32) ensures x == i32::MIN ==> r == i32::MAX, x != i32::MIN ==> r == -x;
pub assume_specification[ i32::unsigned_abs ](x: i32) -> (r: u32) ensures r as int == (if x < 0 { -(x as int) } else { x as int });
pub assume_specification[ i32::checked_abs ](x: i32) -> (r: Option<i32>) ensures x == i32::MIN ==> r.is_none(), x != i32::MIN ==> r == Some((if x < 0 { -x } else { x as int }) as i32);
pub assume_specification[ i64::div_euclid ](x: i64, y: i64) -> (r: i64) requires y != 0, !(x == i64::MIN && y == -1), ensures y > 0 ==> r as int == (x as int) / (y as int);
pub assume_specification[ i64::rem_euclid ](x: i64, y: i64) -> (r: i64) requires y != 0, !(x == i64::MIN && y == -1), ensures y > 0 ==> r as int == (x as int) % (y as int), y < 0 ==> r as int == (x as int) % (-(y as int));
pub assume_specification[ i64::abs ](x: i64) -> (r: i64) requires x != i64::MIN, ensures r as int == (if x < 0 { -(x as int) } else { x as int });
pub assume_specification[ i64::signum ](x: i64) -> (r: i64) ensures r == (if x > 0 { 1int } else if x < 0 { -1int } else { 0int });
pub assume_specification[ i64::is_positive ](x: i64) -> (r: bool) ensures r == (x > 0);
pub assume_specification[ i64::is_negative ](x: i64) -> (r: bool) ensures r == (x < 0);
pub assume_specification[ i64::checked_neg ](x: i64) -> (r: Option<i64>) ensures x == i64::MIN ==> r.is_none(), x != i64::MIN ==> r == Some((-x) as i64);
pub assume_specification[ i64::saturating_add ](x: i64, y: i64) -> (r: i64) ensures i64::MIN <= x + y <= i64::MAX ==> r == x + y, x + y > i64::MAX ==> r == i64::MAX, x + y < i64::MIN ==> r == i64::MIN;
pub assume_specification[ i64::saturating_sub ](x: i64, y: i64) -> (r: i64) ensures i64::MIN <= x - y <= i64::MAX ==> r == x - y, x - y > i64::MAX ==> r == i64::MAX, x - y < i64::MIN ==> r == i64::MIN;
pub assume_specification[ i64::saturating_neg ](x: i64) -> (r: i64) ensures x == i64::MIN ==> r == i64::MAX, x != i64::MIN ==> r == -x;
pub assume_specification[ i64::unsigned_abs ](x: i64) -> (r: u64) ensures r as int == (if x < 0 { -(x as int) } else { x as int });
pub assume_specification[ i64::checked_abs ](x: i64) -> (r: Option<i64>) ensures x == i64::MIN ==> r.is_none(), x != i64::MIN ==> r == Some((if x < 0 { -x } else { x as int }) as i64);
pub assume_specification[ i128::div_euclid ](x: i128, y: i128) -> (r: i128) requires y != 0, !(x == i128::MIN && y == -1), ensures y > 0 ==> r as int == (x as int) / (y as int);
pub assume_specification[ i128::rem_euclid ](x: i128, y: i128) -> (r: i128) requires y != 0, !(x == i128::MIN && y == -1), ensures y > 0 ==> r as int == (x as int) % (y as int), y < 0 ==> r as int == (x as int) % (-(y as int));
pub assume_specification[ i128::abs ](x: i128) -> (r: i128) requires x != i128::MIN, ensures r as int == (if x < 0 { -(x as int) } else { x as int });
pub assume_specification[ i128::signum ](x: i128) -> (r: i128) ensures r == (if x > 0 { 1int } else if x < 0 { -1int } else { 0int });
pub assume_specification[ i128::is_positive ](x: i128) -> (r: bool) ensures r == (x > 0);
pub assume_specification[ i128::is_negative ](x: i128) -> (r: bool) ensures r == (x < 0);
pub assume_specification[ i128::checked_neg ](x: i128) -> (r: Option<i128>) ensures x == i128::MIN ==> r.is_none(), x != i128::MIN ==> r == Some((-x) as i128);
pub assume_specification[ i128::saturating_add ](x: i128, y: i128) -> (r: i128) ensures i128::MIN <= x + y <= i128::MAX ==> r == x + y, x + y > i128::MAX ==> r == i128::MAX, x + y < i128::MIN ==> r == i128::MIN;
pub assume_specification[ i128::saturating_sub ](x: i128, y: i128) -> (r: i128) ensures i128::MIN <= x - y <= i128::MAX ==> r == x - y, x - y > i128::MAX ==> r == i128::MAX, x - y < i128::MIN ==> r == i128::MIN;
pub assume_specification[ i128::saturating_neg ](x: i128) -> (r: i128) ensures x == i128::MIN ==> r == i128::MAX, x != i128::MIN ==> r == -x;
pub assume_specification[ i128::unsigned_abs ](x: i128) -> (r: u128) ensures r as int == (if x < 0 { -(x as int) } else { x as int });
pub assume_specification[ i128::checked_abs ](x: i128) -> (r: Option<i128>) ensures x == i128::MIN ==> r.is_none(), x != i128::MIN ==> r == Some((if x < 0 { -x } else { x as int }) as i128);

// (std spec moved to lib/stdspecs.vrs: i64::saturating_add)
// ---- opaque views of ranged-integer types (accessor facts proved by Kani: group c03_views) ----
#[verifier::external_body]
#[derive(Clone, Copy)]
pub struct Timestamp { _p: () }
pub open spec fn TS_MIN() -> int { -377705023201 }
pub open spec fn TS_MAX() -> int { 253402207200 }
impl Timestamp {
    pub uninterp spec fn sec(&self) -> int;    // stored second
    pub uninterp spec fn nanos(&self) -> int;  // stored sub-second nanoseconds, same sign as sec
    pub open spec fn wf(&self) -> bool {
        TS_MIN() <= self.sec() <= TS_MAX() && -999_999_999 <= self.nanos() <= 999_999_999
        && !(self.sec() > 0 && self.nanos() < 0) && !(self.sec() < 0 && self.nanos() > 0)
        && !(self.sec() == TS_MIN() && self.nanos() < 0)
    }
    /// the instant in nanoseconds
    pub open spec fn ns(&self) -> int { self.sec() * 1_000_000_000 + self.nanos() }
    pub open spec fn floor_sec(&self) -> int { if self.nanos() < 0 { self.sec() - 1 } else { self.sec() } }
    pub open spec fn ceil_sec(&self) -> int { if self.nanos() > 0 { self.sec() + 1 } else { self.sec() } }
    #[verifier::external_body]
    pub fn as_second(&self) -> (r: i64) ensures r == self.sec() { unimplemented!() }
    #[verifier::external_body]
    pub fn subsec_nanosecond(&self) -> (r: i32) ensures r == self.nanos() { unimplemented!() }
    #[verifier::external_body]
    pub fn constant(second: i64, nanosecond: i32) -> (r: Timestamp)
        requires TS_MIN() <= second <= TS_MAX(), nanosecond == 0,
        ensures r.sec() == second, r.nanos() == 0, r.wf()
    { unimplemented!() }
}
#[verifier::external_body]
#[derive(Clone, Copy)]
pub struct DateTime { _p: () }
impl DateTime {
    pub uninterp spec fn loc(&self) -> int;   // local seconds since the epoch denoted by this civil datetime (to the second)
}
#[derive(Clone, Copy)]
pub struct TzifDateTime { pub bits: i64 }
impl TzifDateTime {
    pub uninterp spec fn loc(&self) -> int;   // local seconds denoted by the packed civil datetime
}
// order of packed bits == order of local seconds: TzifDateTime::new packs (y,m,d,h,mi,s) big-endian into an i64,
// so i64 order is lexicographic civil order, which is the order of local seconds (lemma_rd_mono).
pub broadcast proof fn axiom_tzdt_order(a: TzifDateTime, b: TzifDateTime)
    ensures #![trigger a.loc(), b.loc()] (a.bits < b.bits) == (a.loc() < b.loc()), (a.bits == b.bits) == (a.loc() == b.loc())
{ admit(); }
#[verifier::external_body]
pub fn verif_tzdt_of(dt: &DateTime) -> (r: TzifDateTime) ensures r.loc() == dt.loc() { unimplemented!() }
pub fn verif_lt(a: TzifDateTime, b: TzifDateTime) -> (r: bool) ensures r == (a.bits < b.bits) { a.bits < b.bits }

#[derive(Clone, Copy)]
pub struct Offset { pub s: i32 }
impl Offset { pub fn from_seconds_unchecked(s: i32) -> (r: Offset) ensures r.s == s { Offset { s } } }
#[derive(Clone, Copy, PartialEq, Eq, Structural)]
pub enum Dst { No, Yes }
impl Dst { pub fn from(b: bool) -> (r: Dst) ensures r == (if b { Dst::Yes } else { Dst::No }) { if b { Dst::Yes } else { Dst::No } } }
pub enum AmbiguousOffset {
    Unambiguous { offset: Offset },
    Gap { before: Offset, after: Offset },
    Fold { before: Offset, after: Offset },
}
pub enum TimeZoneAbbreviation<'t> { Borrowed(&'t str) }
pub struct TimeZoneOffsetInfo<'t> { pub offset: Offset, pub dst: Dst, pub abbreviation: TimeZoneAbbreviation<'t> }
pub struct TimeZoneTransition<'t> { pub timestamp: Timestamp, pub offset: Offset, pub abbrev: &'t str, pub dst: Dst }

// ---- the POSIX footer, abstract here; its own contracts are unit `posix` ----
#[verifier::external_body]
pub struct PosixTimeZone { _p: () }
impl PosixTimeZone {
    pub uninterp spec fn spec_offset(&self, ts: Timestamp) -> Offset;
    pub uninterp spec fn spec_info(&self, ts: Timestamp) -> TimeZoneOffsetInfo<'static>;
    pub uninterp spec fn spec_amb(&self, loc: int) -> AmbiguousOffset;
    pub uninterp spec fn spec_prev(&self, ts: Timestamp) -> Option<TimeZoneTransition<'static>>;
    pub uninterp spec fn spec_next(&self, ts: Timestamp) -> Option<TimeZoneTransition<'static>>;
    #[verifier::external_body]
    pub fn to_offset(&self, ts: Timestamp) -> (r: Offset) ensures r == self.spec_offset(ts) { unimplemented!() }
    #[verifier::external_body]
    pub fn to_offset_info(&self, ts: Timestamp) -> (r: TimeZoneOffsetInfo<'_>) ensures info_eq(r, self.spec_info(ts)) { unimplemented!() }
    #[verifier::external_body]
    pub fn to_ambiguous_kind(&self, dt: DateTime) -> (r: AmbiguousOffset) ensures r == self.spec_amb(dt.loc()) { unimplemented!() }
    #[verifier::external_body]
    pub fn previous_transition(&self, ts: Timestamp) -> (r: Option<TimeZoneTransition<'_>>) ensures trans_opt_eq(r, self.spec_prev(ts)) { unimplemented!() }
    #[verifier::external_body]
    pub fn next_transition(&self, ts: Timestamp) -> (r: Option<TimeZoneTransition<'_>>) ensures trans_opt_eq(r, self.spec_next(ts)) { unimplemented!() }
}
pub open spec fn abbr_of(a: TimeZoneAbbreviation) -> Seq<char> { match a { TimeZoneAbbreviation::Borrowed(s) => s@ } }
pub open spec fn info_eq(a: TimeZoneOffsetInfo, b: TimeZoneOffsetInfo) -> bool {
    a.offset == b.offset && a.dst == b.dst && abbr_of(a.abbreviation) == abbr_of(b.abbreviation)
}
pub open spec fn trans_eq(a: TimeZoneTransition, b: TimeZoneTransition) -> bool {
    a.timestamp == b.timestamp && a.offset == b.offset && a.dst == b.dst && a.abbrev@ == b.abbrev@
}
pub open spec fn trans_opt_eq(a: Option<TimeZoneTransition>, b: Option<TimeZoneTransition>) -> bool {
    match (a, b) { (None, None) => true, (Some(x), Some(y)) => trans_eq(x, y), _ => false }
}

// ---- the table, seen through its accessors ----
#[verifier::external_body]
pub struct Tzif { _p: () }
impl Tzif {
    pub uninterp spec fn ts(&self) -> Seq<i64>;                  // transition instants (seconds); ts[0] is the dummy at Timestamp::MIN
    pub uninterp spec fn infos_v(&self) -> Seq<TzifTransitionInfo>;
    pub uninterp spec fn types_v(&self) -> Seq<TzifLocalTimeType>;
    pub uninterp spec fn starts(&self) -> Seq<TzifDateTime>;
    pub uninterp spec fn ends(&self) -> Seq<TzifDateTime>;
    pub uninterp spec fn has_posix(&self) -> bool;
    pub uninterp spec fn posix(&self) -> PosixTimeZone;
    pub uninterp spec fn desig(&self, t: TzifLocalTimeType) -> Seq<char>;   // abbreviation text of a local time type

    pub open spec fn n(&self) -> int { self.ts().len() as int }
    /// local time type in force from transition i on
    pub open spec fn lt(&self, i: int) -> TzifLocalTimeType { self.types_v()[self.infos_v()[i].type_index as int] }
    pub open spec fn off(&self, i: int) -> int { self.lt(i).offset as int }

    /// well-formedness of the instant table (postcondition of the parser)
    pub open spec fn wf(&self) -> bool {
        &&& 1 <= self.n() <= usize::MAX     // a slice
        &&& self.infos_v().len() == self.n()
        &&& self.ts()[0] == TS_MIN()
        &&& forall|i: int, j: int| 0 <= i < j < self.n() ==> self.ts()[i] < self.ts()[j]
        &&& forall|i: int| 0 <= i < self.n() ==> TS_MIN() <= #[trigger] self.ts()[i] <= TS_MAX()
        &&& forall|i: int| 0 <= i < self.n() ==> (#[trigger] self.infos_v()[i]).type_index < self.types_v().len()
    }

    // civil view (C04)
    pub open spec fn min2(a: int, b: int) -> int { if a < b { a } else { b } }
    pub open spec fn max2(a: int, b: int) -> int { if a < b { b } else { a } }
    pub open spec fn start_loc(&self, i: int) -> int { if i == 0 { self.ts()[0] + self.off(0) } else { self.ts()[i] + Self::min2(self.off(i - 1), self.off(i)) } }
    pub open spec fn end_loc(&self, i: int) -> int { if i == 0 { self.ts()[0] + self.off(0) } else { self.ts()[i] + Self::max2(self.off(i - 1), self.off(i)) } }
    pub open spec fn kind_of(&self, i: int) -> TzifTransitionKind {
        if i == 0 || self.off(i - 1) == self.off(i) { TzifTransitionKind::Unambiguous }
        else if self.off(i - 1) < self.off(i) { TzifTransitionKind::Gap } else { TzifTransitionKind::Fold }
    }
    /// data-structure invariant established by add_civil_datetimes_to_transitions + the separation assumption on data
    pub open spec fn wf_civil(&self) -> bool {
        &&& self.wf()
        &&& self.starts().len() == self.n() && self.ends().len() == self.n()
        &&& forall|i: int| 0 <= i < self.n() ==> #[trigger] self.starts()[i].loc() == self.start_loc(i)
        &&& forall|i: int| 0 <= i < self.n() && self.kind_of(i) != TzifTransitionKind::Unambiguous ==> #[trigger] self.ends()[i].loc() == self.end_loc(i)
        &&& forall|i: int| 0 <= i < self.n() ==> (#[trigger] self.infos_v()[i]).kind == self.kind_of(i)
        // separation (assumption on the data): ambiguity windows are ordered and disjoint
        &&& forall|i: int, j: int| 0 <= i < j < self.n() ==> #[trigger] self.end_loc(i) <= #[trigger] self.start_loc(j)
        &&& forall|i: int, j: int| 0 <= i < j < self.n() ==> #[trigger] self.starts()[i].bits < #[trigger] self.starts()[j].bits
    }

    #[verifier::external_body]
    pub fn timestamps(&self) -> (r: &[i64]) ensures r@ == self.ts() { unimplemented!() }
    #[verifier::external_body]
    pub fn infos(&self) -> (r: &[TzifTransitionInfo]) ensures r@ == self.infos_v() { unimplemented!() }
    #[verifier::external_body]
    pub fn types(&self) -> (r: &[TzifLocalTimeType]) ensures r@ == self.types_v() { unimplemented!() }
    #[verifier::external_body]
    pub fn civil_starts(&self) -> (r: &[TzifDateTime]) ensures r@ == self.starts() { unimplemented!() }
    #[verifier::external_body]
    pub fn civil_ends(&self) -> (r: &[TzifDateTime]) ensures r@ == self.ends() { unimplemented!() }
    #[verifier::external_body]
    pub fn posix_tz(&self) -> (r: Option<&PosixTimeZone>) ensures r.is_some() == self.has_posix(), r.is_some() ==> *r.unwrap() == self.posix() { unimplemented!() }
    // str slicing by a byte range: outside Verus' subset; abstracted as the abbreviation view
    #[verifier::external_body]
    pub fn designation(&self, typ: &TzifLocalTimeType) -> (r: &str) ensures r@ == self.desig(*typ) { unimplemented!() }
}

// trusted std spec: slice::binary_search on a sorted slice (DESIGN.md section 3 item 2)
#[verifier::external_body]
pub fn verif_binary_search_i64(s: &[i64], x: &i64) -> (r: Result<usize, usize>)
    ensures
        (forall|i: int, j: int| 0 <= i < j < s@.len() ==> s@[i] < s@[j]) ==> match r {
            Ok(i) => i < s@.len() && s@[i as int] == *x,
            Err(i) => i <= s@.len()
                && (forall|k: int| 0 <= k < i ==> s@[k] < *x)
                && (forall|k: int| i <= k < s@.len() ==> s@[k] > *x),
        }
{ s.binary_search(x) }
#[verifier::external_body]
pub fn verif_binary_search_tzdt(s: &[TzifDateTime], x: &TzifDateTime) -> (r: Result<usize, usize>)
    ensures
        (forall|i: int, j: int| 0 <= i < j < s@.len() ==> s@[i].bits < s@[j].bits) ==> match r {
            Ok(i) => i < s@.len() && s@[i as int].bits == x.bits,
            Err(i) => i <= s@.len()
                && (forall|k: int| 0 <= k < i ==> s@[k].bits < x.bits)
                && (forall|k: int| i <= k < s@.len() ==> s@[k].bits > x.bits),
        }
{ unimplemented!() }

// ---- specification taken from the property statements ----
/// C03: transition i governs second t: the latest transition at or before t
pub open spec fn governs(ts: Seq<i64>, i: int, t: int) -> bool {
    0 <= i < ts.len() && ts[i] <= t && (i + 1 < ts.len() ==> t < ts[i + 1])
}
/// C03: i governs t and the table (not the footer) is responsible for it
pub open spec fn governed(tz: &Tzif, t: int, i: int) -> bool {
    governs(tz.ts(), i, t) && (i < tz.n() - 1 || !tz.has_posix())
}
pub open spec fn sorted_i64(s: Seq<i64>) -> bool { forall|i: int, j: int| 0 <= i < j < s.len() ==> s[i] < s[j] }
/// C14: table entry i is the latest one strictly before the (nanosecond) instant whose ceil-second is c
pub open spec fn latest_before(ts: Seq<i64>, i: int, c: int) -> bool {
    0 <= i < ts.len() && ts[i] < c && (i + 1 < ts.len() ==> ts[i + 1] >= c)
}
/// C14: table entry j is the earliest one strictly after the instant whose floor-second is f
pub open spec fn earliest_after(ts: Seq<i64>, j: int, f: int) -> bool {
    0 <= j < ts.len() && ts[j] > f && (j >= 1 ==> ts[j - 1] <= f)
}
pub open spec fn is_entry(tz: &Tzif, tr: TimeZoneTransition, i: int) -> bool {
    tr.timestamp.sec() == tz.ts()[i] && tr.timestamp.nanos() == 0 && tr.offset.s == tz.off(i)
    && tr.dst == (if tz.lt(i).is_dst { Dst::Yes } else { Dst::No }) && tr.abbrev@ == tz.desig(tz.lt(i))
}
/// C04 classification over the civil view
pub open spec fn amb_post(tz: &Tzif, l: int, i: int, res: AmbiguousOffset) -> bool {
    0 <= i < tz.n() && (tz.start_loc(i) <= l || i == 0) && (i + 1 < tz.n() ==> l < tz.start_loc(i + 1)) && (
        if tz.kind_of(i) == TzifTransitionKind::Gap && l < tz.end_loc(i) {
            res matches AmbiguousOffset::Gap { before, after } && before.s == tz.off(i - 1) && after.s == tz.off(i)
        } else if tz.kind_of(i) == TzifTransitionKind::Fold && l < tz.end_loc(i) {
            res matches AmbiguousOffset::Fold { before, after } && before.s == tz.off(i - 1) && after.s == tz.off(i)
        } else if i == tz.n() - 1 && tz.has_posix() {
            res == tz.posix().spec_amb(l)
        } else {
            res matches AmbiguousOffset::Unambiguous { offset } && offset.s == tz.off(i)
        })
}

// ==== extracted from /repo ====
#[derive(Clone, Copy, Debug)]
pub struct TzifLocalTimeType {
    pub offset: i32,
    pub is_dst: bool,
    pub designation: (u8, u8), 
    pub indicator: TzifIndicator,
}

#[derive(Clone, Copy, Debug)]
pub enum TzifIndicator {
    LocalWall,
    LocalStandard,
    UTStandard,
}

#[derive(Clone, Copy, Debug)]
pub struct TzifTransitionInfo {
    
    
    
    pub type_index: u8,
    
    
    pub kind: TzifTransitionKind,
}

#[derive(Clone, Copy, Debug)]
pub enum TzifTransitionKind {
    
    
    
    
    
    Unambiguous,
    
    
    
    
    
    
    
    
    Gap,
    
    
    
    
    
    
    
    
    
    Fold,
}

impl Tzif {
// @fn Tzif::to_offset @src src/tz/tzif.rs:195
#[verifier::spinoff_prover]
pub fn to_offset(&self, timestamp: Timestamp) -> (r: Offset)
    requires
        self.wf(), timestamp.wf(),
    ensures
        (exists|i: int| #[trigger] governed(self, timestamp.floor_sec(), i) && r.s == self.off(i))
    || (self.has_posix() && self.ts()[self.n() - 1] <= timestamp.floor_sec() && r == self.posix().spec_offset(timestamp)),
{
        match self.to_local_time_type(timestamp) {
            Ok(typ) => Offset::from_seconds_unchecked(typ.offset),
            Err(tz) => tz.to_offset(timestamp),
        }
    }
}

impl Tzif {
// @fn Tzif::to_offset_info @src src/tz/tzif.rs:208
#[verifier::spinoff_prover]
pub fn to_offset_info(
        &self,
        timestamp: Timestamp,
    ) -> (r: TimeZoneOffsetInfo)
    requires
        self.wf(), timestamp.wf(),
    ensures
        (exists|i: int| #[trigger] governed(self, timestamp.floor_sec(), i)
        && r.offset.s == self.off(i) && r.dst == (if self.lt(i).is_dst { Dst::Yes } else { Dst::No }) && abbr_of(r.abbreviation) == self.desig(self.lt(i)))
    || (self.has_posix() && self.ts()[self.n() - 1] <= timestamp.floor_sec() && info_eq(r, self.posix().spec_info(timestamp))),
{
        let typ = match self.to_local_time_type(timestamp) {
            Ok(typ) => typ,
            Err(tz) => return tz.to_offset_info(timestamp),
        };
        let abbreviation =
            TimeZoneAbbreviation::Borrowed(self.designation(typ));
        TimeZoneOffsetInfo {
            offset: Offset::from_seconds_unchecked(typ.offset),
            dst: Dst::from(typ.is_dst),
            abbreviation,
        }
    }
}

impl Tzif {
// @fn Tzif::to_local_time_type @src src/tz/tzif.rs:229
#[verifier::spinoff_prover]
pub fn to_local_time_type(
        &self,
        timestamp: Timestamp,
    ) -> (res: Result<&TzifLocalTimeType, &PosixTimeZone>)
    requires
        self.wf(), timestamp.wf(),
    ensures
        match res {
        Ok(typ) => exists|i: int| #[trigger] governed(self, timestamp.floor_sec(), i) && *typ == self.lt(i),
        Err(p) => self.has_posix() && *p == self.posix() && self.ts()[self.n() - 1] <= timestamp.floor_sec(),
    },
{
        let ghost verif_t = timestamp;

        
        
        
        
        let timestamp = if timestamp.subsec_nanosecond() < 0 {
            timestamp.as_second() - 1
        } else {
            timestamp.as_second()
        };
        
        
        
        
        
        
        
        
        
        let timestamps = self.timestamps();
        assert!(!timestamps.is_empty(), "transitions is non-empty");
        let index = if timestamp > *timestamps.last().unwrap() {
            timestamps.len() - 1
        } else {
            let search = verif_binary_search_i64(self.timestamps(), &timestamp);
            match search {
                
                
                Err(0) => {
                    unreachable!()
                }
                Ok(i) => i,
                
                
                
                Err(i) => i.checked_sub(1).expect("i is non-zero"),
            }
        };
        
        
        
        
        { let verif_da: bool = index < timestamps.len(); assert(verif_da); };
        
        
        
        
        
        let index = if index < timestamps.len() - 1 {
            
            
            index
        } else {
            match self.posix_tz() {
                
                
                
                
                
                
                
                
                
                
                Some(tz) => return Err(tz),
                
                
                
                None => index,
            }
        };
        assert(governed(self, verif_t.floor_sec(), index as int));

        Ok(self.local_time_type(index))
    }
}

impl Tzif {
// @fn Tzif::to_ambiguous_kind @src src/tz/tzif.rs:317
#[verifier::spinoff_prover]
pub fn to_ambiguous_kind(&self, dt: DateTime) -> (res: AmbiguousOffset)
    requires
        self.wf_civil(),
    ensures
        exists|i: int| amb_post(self, dt.loc(), i, res),
{
        broadcast use axiom_tzdt_order;
        let ghost l = dt.loc();

        
        
        
        
        
        
        let dtt = verif_tzdt_of(&dt);
        let (starts, ends) = (self.civil_starts(), self.civil_ends());
        assert!(!starts.is_empty(), "transitions is non-empty");
        let this_index = match verif_binary_search_tzdt(starts, &dtt) {
            
            
            
            
            Err(0) => 0,
            Ok(i) => i,
            Err(i) => i.checked_sub(1).expect("i is non-zero"),
        };
        proof {
            let i = this_index as int;
            assert(self.starts()[0].loc() == self.start_loc(0));
            assert(self.starts()[i].loc() == self.start_loc(i));
            if i + 1 < self.n() { assert(self.starts()[i + 1].loc() == self.start_loc(i + 1)); assert(l < self.start_loc(i + 1)); }
            assert(self.infos_v()[i].kind == self.kind_of(i));
            if self.kind_of(i) != TzifTransitionKind::Unambiguous { assert(self.ends()[i].loc() == self.end_loc(i)); }
        }

        { let verif_da: bool = this_index < starts.len(); assert(verif_da); };

        let this_offset = self.local_time_type(this_index).offset;
        
        
        
        
        
        
        match self.transition_kind(this_index) {
            TzifTransitionKind::Gap if verif_lt(dtt, ends[this_index]) => {
                
                
                let prev_index = this_index.checked_sub(1).unwrap();
                let prev_offset = self.local_time_type(prev_index).offset;
                let verif_r = AmbiguousOffset::Gap {
                    before: Offset::from_seconds_unchecked(prev_offset),
                    after: Offset::from_seconds_unchecked(this_offset),
                }; assert(amb_post(self, l, this_index as int, verif_r)); return verif_r;
            }
            TzifTransitionKind::Fold if verif_lt(dtt, ends[this_index]) => {
                
                
                let prev_index = this_index.checked_sub(1).unwrap();
                let prev_offset = self.local_time_type(prev_index).offset;
                let verif_r = AmbiguousOffset::Fold {
                    before: Offset::from_seconds_unchecked(prev_offset),
                    after: Offset::from_seconds_unchecked(this_offset),
                }; assert(amb_post(self, l, this_index as int, verif_r)); return verif_r;
            }
            _ => {}
        }
        
        
        
        
        if this_index == starts.len() - 1 {
            if let Some(tz) = self.posix_tz() {
                let verif_r = tz.to_ambiguous_kind(dt); assert(amb_post(self, l, this_index as int, verif_r)); return verif_r;
            }
            
            
            
            
            
            
            
            
        }
        let verif_r = AmbiguousOffset::Unambiguous { offset: Offset::from_seconds_unchecked(this_offset) }; assert(amb_post(self, l, this_index as int, verif_r)); verif_r}
}

impl Tzif {
// @fn Tzif::previous_transition @src src/tz/tzif.rs:399
#[verifier::spinoff_prover]
pub fn previous_transition(
        &self,
        ts: Timestamp,
    ) -> (res: Option<TimeZoneTransition<'_>>)
    requires
        self.wf(), ts.wf(),
    ensures
        match res {
        // nothing recorded strictly before the instant (index 0 is the dummy entry)
        None => forall|k: int| 1 <= k < self.n() ==> self.ts()[k] >= ts.ceil_sec(),
        Some(tr) => exists|i: int| 1 <= i && #[trigger] latest_before(self.ts(), i, ts.ceil_sec())
            && (is_entry(self, tr, i) || (i == self.n() - 1 && self.has_posix() && trans_opt_eq(Some(tr), self.posix().spec_prev(ts)))),
    },
{
        assert!(!self.timestamps().is_empty(), "transitions is non-empty");
        let mut timestamp = ts.as_second();
        if ts.subsec_nanosecond() > 0 {
            timestamp = timestamp.saturating_add(1);
        }
        let search = verif_binary_search_i64(self.timestamps(), &timestamp);
        assert(sorted_i64(self.ts()));

        let index = match search {
            Ok(i) | Err(i) => i.checked_sub(1)?,
        };
        assert(latest_before(self.ts(), index as int, ts.ceil_sec()));
        let ghost verif_i = index as int;

        let index = if index == 0 {
            
            
            return None;
        } else if index == self.timestamps().len() - 1 {
            if let Some(ref posix_tz) = self.posix_tz() {
                
                
                
                
                
                
                
                
                
                
                
                
                
                
                
                if let Some(trans) = posix_tz.previous_transition(ts) {
                    assert(latest_before(self.ts(), verif_i, ts.ceil_sec()) && verif_i == self.n() - 1); return Some(trans);
                }
            }
            index
        } else {
            index
        };
        let timestamp = self.timestamps()[index];
        let typ = self.local_time_type(index);
        Some(TimeZoneTransition {
            timestamp: Timestamp::constant(timestamp, 0),
            offset: Offset::from_seconds_unchecked(typ.offset),
            abbrev: self.designation(typ),
            dst: Dst::from(typ.is_dst),
        })
    }
}

impl Tzif {
// @fn Tzif::next_transition @src src/tz/tzif.rs:453
#[verifier::spinoff_prover]
pub fn next_transition(
        &self,
        ts: Timestamp,
    ) -> (res: Option<TimeZoneTransition<'_>>)
    requires
        self.wf(), ts.wf(),
    ensures
        // (a) a recorded transition strictly after the instant that is not the last recorded one: exactly that entry
    forall|j: int| 1 <= j < self.n() - 1 && #[trigger] earliest_after(self.ts(), j, ts.floor_sec()) ==> res.is_some() && is_entry(self, res.unwrap(), j),
    // (b) at or beyond the last recorded transition: the footer rule decides, or (no footer) the last entry iff it is still ahead
    (forall|j: int| 0 <= j < self.n() - 1 ==> self.ts()[j] <= ts.floor_sec()) ==> (
        if self.has_posix() { trans_opt_eq(res, self.posix().spec_next(ts)) }
        else if self.ts()[self.n() - 1] > ts.floor_sec() { res.is_some() && is_entry(self, res.unwrap(), self.n() - 1) }
        else { res.is_none() }),
{
        assert!(!self.timestamps().is_empty(), "transitions is non-empty");
        
        
        
        let timestamp = if ts.subsec_nanosecond() < 0 {
            ts.as_second() - 1
        } else {
            ts.as_second()
        };
        let search = verif_binary_search_i64(self.timestamps(), &timestamp);
        assert(sorted_i64(self.ts()));

        let index = match search {
            Ok(i) => { assert(i < self.ts().len() && i + 1 <= usize::MAX); i.checked_add(1)? }
            Err(i) => i,
        };
        assert(index >= 1 && index <= self.n());
        assert(index < self.n() ==> earliest_after(self.ts(), index as int, ts.floor_sec()));
        assert(forall|k: int| 0 <= k < index ==> self.ts()[k] <= ts.floor_sec());

        let index = if index == 0 {
            
            
            return None;
        } else if index >= self.timestamps().len() - 1 {
            if let Some(posix_tz) = self.posix_tz() {
                
                
                
                
                
                
                
                
                
                
                
                
                
                
                
                return posix_tz.next_transition(ts);
            }
            
            
            if index >= self.timestamps().len() {
                return None;
            }
            index
        } else {
            index
        };
        let timestamp = self.timestamps()[index];
        let typ = self.local_time_type(index);
        Some(TimeZoneTransition {
            timestamp: Timestamp::constant(timestamp, 0),
            offset: Offset::from_seconds_unchecked(typ.offset),
            abbrev: self.designation(typ),
            dst: Dst::from(typ.is_dst),
        })
    }
}

impl Tzif {
// @fn Tzif::local_time_type @src src/tz/tzif.rs:519
#[verifier::spinoff_prover]
pub fn local_time_type(
        &self,
        transition_index: usize,
    ) -> (r: &TzifLocalTimeType)
    requires
        self.wf(), transition_index < self.n(),
    ensures
        *r == self.lt(transition_index as int),
{
        
        
        &self.types()[(self.infos()[transition_index].type_index as usize)]
    }
}

impl Tzif {
// @fn Tzif::transition_kind @src src/tz/tzif.rs:528
#[verifier::spinoff_prover]
pub fn transition_kind(
        &self,
        transition_index: usize,
    ) -> (r: TzifTransitionKind)
    requires
        self.wf(), transition_index < self.n(),
    ensures
        r == self.infos_v()[transition_index as int].kind,
{
        self.infos()[transition_index].kind
    }
}

// ==== end extracted ====


} // verus!
fn main() {}
