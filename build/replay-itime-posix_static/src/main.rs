// Native witness search for the itime contracts.  The module below IS the repository's file
// (included by #[path]); the oracle is an independent successor-built Gregorian calendar.
#![allow(dead_code, unused)]
extern crate alloc;
mod shared {
    pub mod util {
        #[path = "/repo/crates/jiff-static/src/shared/util/error.rs"]
        pub mod error;
        #[path = "/repo/crates/jiff-static/src/shared/util/itime.rs"]
        pub mod itime;
    }
}
use shared::util::itime::*;
use std::panic::{catch_unwind, AssertUnwindSafe};

fn is_leap(y: i64) -> bool { y.rem_euclid(4) == 0 && (y.rem_euclid(100) != 0 || y.rem_euclid(400) == 0) }
fn dim(y: i64, m: i64) -> i64 { match m { 2 => if is_leap(y) { 29 } else { 28 }, 4 | 6 | 9 | 11 => 30, _ => 31 } }
fn next(y: i64, m: i64, d: i64) -> (i64, i64, i64) { if d == dim(y, m) { if m == 12 { (y + 1, 1, 1) } else { (y, m + 1, 1) } } else { (y, m, d + 1) } }
const E_MIN: i64 = -4371587;
const E_MAX: i64 = 2932896;

struct Cal { dates: Vec<(i16, i8, i8)> }   // index = e - E_MIN
impl Cal {
    fn build() -> Cal {
        let mut v = Vec::with_capacity(7_304_484);
        let (mut y, mut m, mut d) = (-9999i64, 1i64, 1i64);
        loop {
            v.push((y as i16, m as i8, d as i8));
            if (y, m, d) == (9999, 12, 31) { break; }
            let n = next(y, m, d); y = n.0; m = n.1; d = n.2;
        }
        let c = Cal { dates: v };
        // self-check of the oracle: the statement's anchor
        assert_eq!(c.dates[(0 - E_MIN) as usize], (1970, 1, 1));
        assert_eq!(c.dates.len() as i64, E_MAX - E_MIN + 1);
        c
    }
    fn date(&self, e: i64) -> (i16, i8, i8) { self.dates[(e - E_MIN) as usize] }
}
fn wd(e: i64) -> i64 { (e + 3).rem_euclid(7) + 1 }

macro_rules! witness { ($($t:tt)*) => {{ println!("WITNESS {}", format!($($t)*)); std::process::exit(3); }} }
fn guard<T>(what: &str, input: String, f: impl FnOnce() -> T) -> T {
    match catch_unwind(AssertUnwindSafe(f)) { Ok(v) => v, Err(_) => witness!("fn={} input=({}) got=PANIC", what, input) }
}

fn main() {
    std::panic::set_hook(Box::new(|_| {}));
    let f = std::env::args().nth(1).unwrap_or_default();
    let cal = Cal::build();
    let n = cal.dates.len() as i64;
    let idate = |t: (i16, i8, i8)| IDate { year: t.0, month: t.1, day: t.2 };
    match f.as_str() {
        "is_leap_year" | "days_in_year" | "days_in_month" => {
            for y in -9999i64..=9999 {
                let got = guard(&f, format!("{y}"), || is_leap_year(y as i16));
                if got != is_leap(y) { witness!("fn=is_leap_year input=({y}) got={got} want={}", is_leap(y)); }
                let got = days_in_year(y as i16) as i64;
                if got != if is_leap(y) { 366 } else { 365 } { witness!("fn=days_in_year input=({y}) got={got}"); }
                for m in 1..=12i64 {
                    let got = guard(&f, format!("{y},{m}"), || days_in_month(y as i16, m as i8)) as i64;
                    if got != dim(y, m) { witness!("fn=days_in_month input=({y},{m}) got={got} want={}", dim(y, m)); }
                }
            }
        }
        "IDate::to_epoch_day" | "IEpochDay::to_date" | "IEpochDay::weekday" | "IDate::weekday" | "IDate::tomorrow" | "IDate::yesterday" | "IDate::first_of_month" | "IDate::last_of_month" | "IDate::prev_year" | "IDate::next_year" => {
            for i in 0..n {
                let e = E_MIN + i;
                let t = cal.dates[i as usize];
                let inp = format!("{:?} e={e}", t);
                let got = guard("IDate::to_epoch_day", inp.clone(), || idate(t).to_epoch_day().epoch_day) as i64;
                if got != e { witness!("fn=IDate::to_epoch_day input=({inp}) got={got} want={e}"); }
                let got = guard("IEpochDay::to_date", inp.clone(), || IEpochDay { epoch_day: e as i32 }.to_date());
                if (got.year, got.month, got.day) != t { witness!("fn=IEpochDay::to_date input=({e}) got={:?} want={:?}", got, t); }
                let got = guard("IEpochDay::weekday", inp.clone(), || IEpochDay { epoch_day: e as i32 }.weekday().to_monday_one_offset()) as i64;
                if got != wd(e) { witness!("fn=IEpochDay::weekday input=({e}) got={got} want={}", wd(e)); }
                let got = guard("IDate::weekday", inp.clone(), || idate(t).weekday().to_monday_one_offset()) as i64;
                if got != wd(e) { witness!("fn=IDate::weekday input=({inp}) got={got} want={}", wd(e)); }
                let got = guard("IDate::tomorrow", inp.clone(), || idate(t).tomorrow());
                match got { Ok(g) => { if i + 1 >= n || (g.year, g.month, g.day) != cal.dates[(i + 1) as usize] { witness!("fn=IDate::tomorrow input=({inp}) got={:?}", g); } }
                            Err(_) => if i + 1 < n { witness!("fn=IDate::tomorrow input=({inp}) got=Err"); } }
                let got = guard("IDate::yesterday", inp.clone(), || idate(t).yesterday());
                match got { Ok(g) => { if i == 0 || (g.year, g.month, g.day) != cal.dates[(i - 1) as usize] { witness!("fn=IDate::yesterday input=({inp}) got={:?}", g); } }
                            Err(_) => if i > 0 { witness!("fn=IDate::yesterday input=({inp}) got=Err"); } }
                let py = idate(t).prev_year(); let ny = idate(t).next_year();
                if py.is_ok() != (t.0 > -9999) || py.map(|v| v == t.0 - 1).unwrap_or(true) == false { witness!("fn=IDate::prev_year input=({inp})"); }
                if ny.is_ok() != (t.0 < 9999) || ny.map(|v| v == t.0 + 1).unwrap_or(true) == false { witness!("fn=IDate::next_year input=({inp})"); }
            }
        }
        "IDate::try_new" => {
            for y in -9999i64..=9999 { for m in 1..=12i64 { for d in 1..=127i64 {
                let got = guard(&f, format!("{y},{m},{d}"), || IDate::try_new(y as i16, m as i8, d as i8));
                let want = d <= dim(y, m);
                if got.is_ok() != want { witness!("fn=IDate::try_new input=({y},{m},{d}) got_ok={} want_ok={want}", got.is_ok()); }
                if let Ok(g) = got { if (g.year as i64, g.month as i64, g.day as i64) != (y, m, d) { witness!("fn=IDate::try_new input=({y},{m},{d}) got={:?}", g); } }
            } } }
        }
        "IEpochDay::checked_add" | "IDate::checked_add_days" => {
            let amounts: Vec<i64> = vec![0, 1, -1, 2, -2, 7, 27, 28, 29, 30, 31, 32, 59, 60, 365, 366, -365, -366, 1461, 36524, 146097, -146097, 1_000_000, -1_000_000, 7304483, -7304483, 7304484, -7304484, i32::MAX as i64, i32::MIN as i64];
            for i in (0..n).step_by(1) {
                let near_edge = i < 800 || i > n - 800 || (i % 97 == 0);
                if !near_edge { continue; }
                let e = E_MIN + i; let t = cal.dates[i as usize];
                for &a in &amounts {
                    let want = e + a;
                    let ok = E_MIN <= want && want <= E_MAX;
                    let got = guard("IEpochDay::checked_add", format!("{e},{a}"), || IEpochDay { epoch_day: e as i32 }.checked_add(a as i32));
                    if got.is_ok() != ok || got.as_ref().map(|g| g.epoch_day as i64 != want).unwrap_or(false) { witness!("fn=IEpochDay::checked_add input=({e},{a}) got={:?} want={}", got.map(|g| g.epoch_day).ok(), want); }
                    let got = guard("IDate::checked_add_days", format!("{:?},{a}", t), || idate(t).checked_add_days(a as i32));
                    if got.is_ok() != ok { witness!("fn=IDate::checked_add_days input=({:?},{a}) got_ok={} want_ok={ok}", t, got.is_ok()); }
                    if let Ok(g) = got { if (g.year, g.month, g.day) != cal.date(want) { witness!("fn=IDate::checked_add_days input=({:?},{a}) got={:?} want={:?}", t, g, cal.date(want)); } }
                }
            }
        }
        "IDate::from_day_of_year" | "IDate::from_day_of_year_no_leap" => {
            for y in -9999i64..=9999 {
                let jan1 = { // index of Jan 1 of y
                    let mut lo = 0i64; let mut hi = n - 1;
                    while lo < hi { let mid = (lo + hi) / 2; let t = cal.dates[mid as usize]; if (t.0 as i64, t.1, t.2) < (y, 1, 1) { lo = mid + 1 } else { hi = mid } }
                    lo };
                let len = if is_leap(y) { 366 } else { 365 };
                for d in [-1i64, 0, 1, 2, 31, 32, 58, 59, 60, 61, 62, 180, 364, 365, 366, 367, 400, 32767, -32768] {
                    let got = guard("IDate::from_day_of_year", format!("{y},{d}"), || IDate::from_day_of_year(y as i16, d as i16));
                    let ok = 1 <= d && d <= len;
                    if got.is_ok() != ok { witness!("fn=IDate::from_day_of_year input=({y},{d}) got_ok={} want_ok={ok}", got.is_ok()); }
                    if let Ok(g) = got { if (g.year, g.month, g.day) != cal.dates[(jan1 + d - 1) as usize] { witness!("fn=IDate::from_day_of_year input=({y},{d}) got={:?}", g); } }
                    let got = guard("IDate::from_day_of_year_no_leap", format!("{y},{d}"), || IDate::from_day_of_year_no_leap(y as i16, d as i16));
                    let ok = 1 <= d && d <= 365;
                    if got.is_ok() != ok { witness!("fn=IDate::from_day_of_year_no_leap input=({y},{d}) got_ok={} want_ok={ok}", got.is_ok()); }
                    if let Ok(g) = got { let dd = if d >= 60 && is_leap(y) { d + 1 } else { d }; if (g.year, g.month, g.day) != cal.dates[(jan1 + dd - 1) as usize] { witness!("fn=IDate::from_day_of_year_no_leap input=({y},{d}) got={:?}", g); } }
                }
            }
        }
        "IDate::nth_weekday_of_month" | "IWeekday::since" | "IWeekday::from_sunday_zero_offset" | "IWeekday::from_monday_zero_offset" | "IWeekday::from_monday_one_offset" | "IWeekday::to_monday_zero_offset" | "IWeekday::to_monday_one_offset" => {
            for a in 1..=7i8 { for b in 1..=7i8 {
                let got = IWeekday::from_monday_one_offset(a).since(IWeekday::from_monday_one_offset(b)) as i64;
                if got != ((a - b) as i64).rem_euclid(7) { witness!("fn=IWeekday::since input=({a},{b}) got={got}"); }
            } }
            for o in 0..=6i8 {
                if IWeekday::from_sunday_zero_offset(o).to_monday_one_offset() != (if o == 0 { 7 } else { o }) { witness!("fn=IWeekday::from_sunday_zero_offset input=({o})"); }
                if IWeekday::from_monday_zero_offset(o).to_monday_one_offset() != o + 1 { witness!("fn=IWeekday::from_monday_zero_offset input=({o})"); }
                if IWeekday::from_monday_zero_offset(o).to_monday_zero_offset() != o { witness!("fn=IWeekday::to_monday_zero_offset input=({o})"); }
            }
            let mut i = 0i64;
            while i < n {
                let t = cal.dates[i as usize];
                let (y, m) = (t.0 as i64, t.1 as i64);
                let len = dim(y, m);
                // i is the index of day t.2; month start index:
                let start = i - (t.2 as i64 - 1);
                for nth in -7i64..=7 { for w in 1..=7i64 {
                    for probe_day in [1i64, len] {
                        let self_d = idate((t.0, t.1, probe_day as i8));
                        let got = guard("IDate::nth_weekday_of_month", format!("{y}-{m}-{probe_day},{nth},{w}"), || self_d.nth_weekday_of_month(nth as i8, IWeekday::from_monday_one_offset(w as i8)));
                        // oracle by enumeration
                        let days: Vec<i64> = (1..=len).filter(|d| wd(E_MIN + start + d - 1) == w).collect();
                        let want = if nth == 0 || nth < -5 || nth > 5 { None } else if nth > 0 { days.get((nth - 1) as usize).copied() } else { let k = (-nth - 1) as usize; if k < days.len() { Some(days[days.len() - 1 - k]) } else { None } };
                        match (got, want) {
                            (Ok(g), Some(d)) => if (g.year as i64, g.month as i64, g.day as i64) != (y, m, d) { witness!("fn=IDate::nth_weekday_of_month input=({y}-{m},{nth},{w}) got={:?} want_day={d}", g); },
                            (Err(_), None) => {}
                            (Ok(g), None) => witness!("fn=IDate::nth_weekday_of_month input=({y}-{m},{nth},{w}) got={:?} want=Err", g),
                            (Err(_), Some(d)) => witness!("fn=IDate::nth_weekday_of_month input=({y}-{m},{nth},{w}) got=Err want_day={d}"),
                        }
                    }
                } }
                i = start + len;
            }
        }
        "ITime::to_second" | "ITime::to_nanosecond" | "ITimeSecond::to_time" | "ITimeNanosecond::to_time" => {
            for s in 0..86400i64 {
                let t = guard("ITimeSecond::to_time", format!("{s}"), || ITimeSecond { second: s as i32 }.to_time());
                if (t.hour as i64, t.minute as i64, t.second as i64, t.subsec_nanosecond) != (s / 3600, s / 60 % 60, s % 60, 0) { witness!("fn=ITimeSecond::to_time input=({s}) got={:?}", t); }
                if t.to_second().second as i64 != s { witness!("fn=ITime::to_second input=({:?}) got={}", t, t.to_second().second); }
                for ns in [0i64, 1, 999_999_999, 500_000_000, 123_456_789] {
                    let tot = s * 1_000_000_000 + ns;
                    let t = guard("ITimeNanosecond::to_time", format!("{tot}"), || ITimeNanosecond { nanosecond: tot }.to_time());
                    if (t.hour as i64, t.minute as i64, t.second as i64, t.subsec_nanosecond as i64) != (s / 3600, s / 60 % 60, s % 60, ns) { witness!("fn=ITimeNanosecond::to_time input=({tot}) got={:?}", t); }
                    if t.to_nanosecond().nanosecond != tot { witness!("fn=ITime::to_nanosecond input=({:?}) got={}", t, t.to_nanosecond().nanosecond); }
                }
            }
        }
        "ITimestamp::to_datetime" | "IDateTime::to_timestamp" | "IDateTime::to_timestamp_checked" => {
            let secs: Vec<i64> = { let mut v = vec![]; for base in [-377705023201i64, -377705023201 + 93599, -86400, -3600, -1, 0, 1, 3600, 86399, 86400, 951782400, 253402207200 - 93599, 253402207200, -62135596800, -62167219200, -21488400] { for d in [-2i64, -1, 0, 1, 2, 59, 60, 3599, 3600, 86399, 86400] { v.push(base + d); v.push(base - d); } } v };
            let offs = [0i64, 1, -1, 59, -59, 3600, -3600, 3601, 19800, -16200, 50400, -43200, 93599, -93599];
            let nss = [0i64, 1, -1, 500_000_000, -500_000_000, 999_999_999, -999_999_999];
            for &s in &secs { for &o in &offs { for &ns in &nss {
                // exact instant in ns (may be un-normalised): T = s*1e9 + ns
                let local = (s + o) as i128 * 1_000_000_000 + ns as i128;
                let day = local.div_euclid(86_400_000_000_000);
                let nod = local.rem_euclid(86_400_000_000_000);
                if day < E_MIN as i128 || day > E_MAX as i128 { continue; }
                let inp = format!("sec={s} ns={ns} off={o}");
                let dt = guard("ITimestamp::to_datetime", inp.clone(), || ITimestamp { second: s, nanosecond: ns as i32 }.to_datetime(IOffset { second: o as i32 }));
                let wantd = cal.date(day as i64);
                let gotn = dt.time.hour as i128 * 3_600_000_000_000 + dt.time.minute as i128 * 60_000_000_000 + dt.time.second as i128 * 1_000_000_000 + dt.time.subsec_nanosecond as i128;
                if (dt.date.year, dt.date.month, dt.date.day) != wantd || gotn != nod { witness!("fn=ITimestamp::to_datetime input=({inp}) got={:?} want_date={:?} want_ns_of_day={nod}", dt, wantd); }
                // back
                let ts = guard("IDateTime::to_timestamp", format!("{:?} off={o}", dt), || dt.to_timestamp(IOffset { second: o as i32 }));
                let tot = ts.second as i128 * 1_000_000_000 + ts.nanosecond as i128;
                let want_tot = s as i128 * 1_000_000_000 + ns as i128;
                let signs_ok = !(ts.second > 0 && ts.nanosecond < 0) && !(ts.second < 0 && ts.nanosecond > 0) && ts.nanosecond.abs() <= 999_999_999;
                if tot != want_tot || !signs_ok { witness!("fn=IDateTime::to_timestamp input=({:?} off={o}) got={:?} want_total_ns={want_tot}", dt, ts); }
                let c = guard("IDateTime::to_timestamp_checked", format!("{:?} off={o}", dt), || dt.to_timestamp_checked(IOffset { second: o as i32 }));
                let inr = -377705023201i128 * 1_000_000_000 <= want_tot && want_tot <= 253402207200i128 * 1_000_000_000 + 999_999_999;
                if c.is_some() != inr { witness!("fn=IDateTime::to_timestamp_checked input=({:?} off={o}) got_some={} want_some={inr}", dt, c.is_some()); }
                if let Some(c) = c { if c != ts { witness!("fn=IDateTime::to_timestamp_checked input=({:?} off={o}) got={:?}", dt, c); } }
            } } }
        }
        "IDateTime::checked_add_seconds" | "IDateTime::saturating_add_seconds" => {
            let idxs: Vec<i64> = (0..400).chain((n - 400)..n).chain((0..n).step_by(9973)).collect();
            for &i in &idxs { let t = cal.dates[i as usize]; let e = E_MIN + i;
                for sod in [0i64, 1, 3599, 3600, 43200, 86399] { for add in [0i64, 1, -1, 60, -60, 3600, -3600, 86399, -86399, 86400, -86400, 86401, -86401, 93599, -93599, 100000, -100000, 2_000_000_000, -2_000_000_000] {
                    let dt = IDateTime { date: idate(t), time: ITimeSecond { second: sod as i32 }.to_time() };
                    let tot = e * 86400 + sod + add;
                    let day = tot.div_euclid(86400); let s2 = tot.rem_euclid(86400);
                    let ok = E_MIN <= day && day <= E_MAX;
                    let inp = format!("{:?} sod={sod} add={add}", t);
                    let got = guard("IDateTime::checked_add_seconds", inp.clone(), || dt.checked_add_seconds(add as i32));
                    if got.is_ok() != ok { witness!("fn=IDateTime::checked_add_seconds input=({inp}) got_ok={} want_ok={ok}", got.is_ok()); }
                    if let Ok(g) = got { if (g.date.year, g.date.month, g.date.day) != cal.date(day) || g.time.to_second().second as i64 != s2 { witness!("fn=IDateTime::checked_add_seconds input=({inp}) got={:?} want_date={:?} want_sod={s2}", g, cal.date(day)); } }
                    let sat = guard("IDateTime::saturating_add_seconds", inp.clone(), || dt.saturating_add_seconds(add as i32));
                    if ok { if (sat.date.year, sat.date.month, sat.date.day) != cal.date(day) || sat.time.to_second().second as i64 != s2 { witness!("fn=IDateTime::saturating_add_seconds input=({inp}) got={:?}", sat); } }
                    else { let want = if add < 0 { ((-9999, 1, 1), 0, 0) } else { ((9999, 12, 31), 86399, 999_999_999) };
                        if ((sat.date.year, sat.date.month, sat.date.day), sat.time.to_second().second, sat.time.subsec_nanosecond) != want { witness!("fn=IDateTime::saturating_add_seconds input=({inp}) got={:?}", sat); } }
                } }
            }
        }
        _ => { println!("NOSEARCH {}", f); return; }
    }
    println!("NONE {}", f);
}
