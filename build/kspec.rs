#![allow(unused, non_snake_case, non_upper_case_globals)]
use vstd::prelude::*;
verus! {
// ---- include lib/stdspecs.vrs ----
// Specifications of core integer methods that vstd 0.2026.09.13 does not provide (trusted; each mirrors the std documentation).
// Included by every unit so that an edited body that starts using one of them is still decided.
pub assume_specification[ i8::div_euclid ](x: i8, y: i8) -> (r: i8) requires y != 0, !(x == i8::MIN && y == -1), ensures y > 0 ==> r as int == (x as int) / (y as int);
pub assume_specification[ i8::rem_euclid ](x: i8, y: i8) -> (r: i8) requires y != 0, !(x == i8::MIN && y == -1), ensures y > 0 ==> r as int == (x as int) % (y as int), y < 0 ==> r as int == (x as int) % (-(y as int));
pub assume_specification[ i8::abs ](x: i8) -> (r: i8) requires x != i8::MIN, ensures r as int == (if x < 0 { -(x as int) } else { x as int });
pub assume_specification[ i8::signum ](x: i8) -> (r: i8) ensures r == (if x > 0 { 1int } else if x < 0 { -1int } else { 0int });
pub assume_specification[ i8::is_positive ](x: i8) -> (r: bool) ensures r == (x > 0);
pub assume_specification[ i8::is_negative ](x: i8) -> (r: bool) ensures r == (x < 0);
pub assume_specification[ i8::checked_neg ](x: i8) -> (r: Option<i8>) ensures x == i8::MIN ==> r.is_none(), x != i8::MIN ==> r == Some((-x) as i8);
pub assume_specification[ i8::saturating_add ](x: i8, y: i8) -> (r: i8) ensures i8::MIN <= x + y <= i8::MAX ==> r == x + y, x + y > i8::MAX ==> r == i8::MAX, x + y < i8::MIN ==> r == i8::MIN;
pub assume_specification[ i8::saturating_sub ](x: i8, y: i8) -> (r: i8) ensures i8::MIN <= x - y <= i8::MAX ==> r == x - y, x - y > i8::MAX ==> r == i8::MAX, x - y < i8::MIN ==> r == i8::MIN;
pub assume_specification[ i8::saturating_neg ](x: i8) -> (r: i8) ensures x == i8::MIN ==> r == i8::MAX, x != i8::MIN ==> r == -x;
pub assume_specification[ i8::unsigned_abs ](x: i8) -> (r: u8) ensures r as int == (if x < 0 { -(x as int) } else { x as int });
pub assume_specification[ i8::checked_abs ](x: i8) -> (r: Option<i8>) ensures x == i8::MIN ==> r.is_none(), x != i8::MIN ==> r == Some((if x < 0 { -x } else { x as int }) as i8);
pub assume_specification[ i16::div_euclid ](x: i16, y: i16) -> (r: i16) requires y != 0, !(x == i16::MIN && y == -1), ensures y > 0 ==> r as int == (x as int) / (y as int);
pub assume_specification[ i16::rem_euclid ](x: i16, y: i16) -> (r: i16) requires y != 0, !(x == i16::MIN && y == -1), ensures y > 0 ==> r as int == (x as int) % (y as int), y < 0 ==> r as int == (x as int) % (-(y as int));
pub assume_specification[ i16::abs ](x: i16) -> (r: i16) requires x != i16::MIN, ensures r as int == (if x < 0 { -(x as int) } else { x as int });
pub assume_specification[ i16::signum ](x: i16) -> (r: i16) ensures r == (if x > 0 { 1int } else if x < 0 { -1int } else { 0int });
pub assume_specification[ i16::is_positive ](x: i16) -> (r: bool) ensures r == (x > 0);
pub assume_specification[ i16::is_negative ](x: i16) -> (r: bool) ensures r == (x < 0);
pub assume_specification[ i16::checked_neg ](x: i16) -> (r: Option<i16>) ensures x == i16::MIN ==> r.is_none(), x != i16::MIN ==> r == Some((-x) as i16);
pub assume_specification[ i16::saturating_add ](x: i16, y: i16) -> (r: i16) ensures i16::MIN <= x + y <= i16::MAX ==> r == x + y, x + y > i16::MAX ==> r == i16::MAX, x + y < i16::MIN ==> r == i16::MIN;
pub assume_specification[ i16::saturating_sub ](x: i16, y: i16) -> (r: i16) ensures i16::MIN <= x - y <= i16::MAX ==> r == x - y, x - y > i16::MAX ==> r == i16::MAX, x - y < i16::MIN ==> r == i16::MIN;
pub assume_specification[ i16::saturating_neg ](x: i16) -> (r: i16) ensures x == i16::MIN ==> r == i16::MAX, x != i16::MIN ==> r == -x;
pub assume_specification[ i16::unsigned_abs ](x: i16) -> (r: u16) ensures r as int == (if x < 0 { -(x as int) } else { x as int });
pub assume_specification[ i16::checked_abs ](x: i16) -> (r: Option<i16>) ensures x == i16::MIN ==> r.is_none(), x != i16::MIN ==> r == Some((if x < 0 { -x } else { x as int }) as i16);
pub assume_specification[ i32::div_euclid ](x: i32, y: i32) -> (r: i32) requires y != 0, !(x == i32::MIN && y == -1), ensures y > 0 ==> r as int == (x as int) / (y as int);
pub assume_specification[ i32::rem_euclid ](x: i32, y: i32) -> (r: i32) requires y != 0, !(x == i32::MIN && y == -1), ensures y > 0 ==> r as int == (x as int) % (y as int), y < 0 ==> r as int == (x as int) % (-(y as int));
pub assume_specification[ i32::abs ](x: i32) -> (r: i32) requires x != i32::MIN, ensures r as int == (if x < 0 { -(x as int) } else { x as int });
pub assume_specification[ i32::signum ](x: i32) -> (r: i32) ensures r == (if x > 0 { 1int } else if x < 0 { -1int } else { 0int });
pub assume_specification[ i32::is_positive ](x: i32) -> (r: bool) ensures r == (x > 0);
pub assume_specification[ i32::is_negative ](x: i32) -> (r: bool) ensures r == (x < 0);
pub assume_specification[ i32::checked_neg ](x: i32) -> (r: Option<i32>) ensures x == i32::MIN ==> r.is_none(), x != i32::MIN ==> r == Some((-x) as i32);
pub assume_specification[ i32::saturating_add ](x: i32, y: i32) -> (r: i32) ensures i32::MIN <= x + y <= i32::MAX ==> r == x + y, x + y > i32::MAX ==> r == i32::MAX, x + y < i32::MIN ==> r == i32::MIN;
pub assume_specification[ i32::saturating_sub ](x: i32, y: i32) -> (r: i32) ensures i32::MIN <= x - y <= i32::MAX ==> r == x - y, x - y > i32::MAX ==> r == i32::MAX, x - y < i32::MIN ==> r == i32::MIN;
pub assume_specification[ i32::saturating_neg ](x: i32) -> (r: i32) ensures x == i32::MIN ==> r == i32::MAX, x != i32::MIN ==> r == -x;
pub assume_specification[ i32::unsigned_abs ](x: i32) -> (r: u32) ensures r as int == (if x < 0 { -(x as int) } else { x as int });
pub assume_specification[ i32::checked_abs ](x: i32) -> (r: Option<i32>) ensures x == i32::MIN ==> r.is_none(), x != i32::MIN ==> r == Some((if x < 0 { -x } else { x as int }) as i32);
pub assume_specification[ i64::div_euclid ](x: i64, y: i64) -> (r: i64) requires y != 0, !(x == i64::MIN && y == -1), ensures y > 0 ==> r as int == (x as int) / (y as int);
pub assume_specification[ i64::rem_euclid ](x: i64, y: i64) -> (r: i64) requires y != 0, !(x == i64::MIN && y == -1), ensures y > 0 ==> r as int == (x as int) % (y as int), y < 0 ==> r as int == (x as int) % (-(y as int));
pub assume_specification[ i64::abs ](x: i64) -> (r: i64) requires x != i64::MIN, ensures r as int == (if x < 0 { -(x as int) } else { x as int });
pub assume_specification[ i64::signum ](x: i64) -> (r: i64) ensures r == (if x > 0 { 1int } else if x < 0 { -1int } else { 0int });
pub assume_specification[ i64::is_positive ](x: i64) -> (r: bool) ensures r == (x > 0);
pub assume_specification[ i64::is_negative ](x: i64) -> (r: bool) ensures r == (x < 0);
pub assume_specification[ i64::checked_neg ](x: i64) -> (r: Option<i64>) ensures x == i64::MIN ==> r.is_none(), x != i64::MIN ==> r == Some((-x) as i64);
pub assume_specification[ i64::saturating_add ](x: i64, y: i64) -> (r: i64) ensures i64::MIN <= x + y <= i64::MAX ==> r == x + y, x + y > i64::MAX ==> r == i64::MAX, x + y < i64::MIN ==> r == i64::MIN;
pub assume_specification[ i64::saturating_sub ](x: i64, y: i64) -> (r: i64) ensures i64::MIN <= x - y <= i64::MAX ==> r == x - y, x - y > i64::MAX ==> r == i64::MAX, x - y < i64::MIN ==> r == i64::MIN;
pub assume_specification[ i64::saturating_neg ](x: i64) -> (r: i64) ensures x == i64::MIN ==> r == i64::MAX, x != i64::MIN ==> r == -x;
pub assume_specification[ i64::unsigned_abs ](x: i64) -> (r: u64) ensures r as int == (if x < 0 { -(x as int) } else { x as int });
pub assume_specification[ i64::checked_abs ](x: i64) -> (r: Option<i64>) ensures x == i64::MIN ==> r.is_none(), x != i64::MIN ==> r == Some((if x < 0 { -x } else { x as int }) as i64);
pub assume_specification[ i128::div_euclid ](x: i128, y: i128) -> (r: i128) requires y != 0, !(x == i128::MIN && y == -1), ensures y > 0 ==> r as int == (x as int) / (y as int);
pub assume_specification[ i128::rem_euclid ](x: i128, y: i128) -> (r: i128) requires y != 0, !(x == i128::MIN && y == -1), ensures y > 0 ==> r as int == (x as int) % (y as int), y < 0 ==> r as int == (x as int) % (-(y as int));
pub assume_specification[ i128::abs ](x: i128) -> (r: i128) requires x != i128::MIN, ensures r as int == (if x < 0 { -(x as int) } else { x as int });
pub assume_specification[ i128::signum ](x: i128) -> (r: i128) ensures r == (if x > 0 { 1int } else if x < 0 { -1int } else { 0int });
pub assume_specification[ i128::is_positive ](x: i128) -> (r: bool) ensures r == (x > 0);
pub assume_specification[ i128::is_negative ](x: i128) -> (r: bool) ensures r == (x < 0);
pub assume_specification[ i128::checked_neg ](x: i128) -> (r: Option<i128>) ensures x == i128::MIN ==> r.is_none(), x != i128::MIN ==> r == Some((-x) as i128);
pub assume_specification[ i128::saturating_add ](x: i128, y: i128) -> (r: i128) ensures i128::MIN <= x + y <= i128::MAX ==> r == x + y, x + y > i128::MAX ==> r == i128::MAX, x + y < i128::MIN ==> r == i128::MIN;
pub assume_specification[ i128::saturating_sub ](x: i128, y: i128) -> (r: i128) ensures i128::MIN <= x - y <= i128::MAX ==> r == x - y, x - y > i128::MAX ==> r == i128::MAX, x - y < i128::MIN ==> r == i128::MIN;
pub assume_specification[ i128::saturating_neg ](x: i128) -> (r: i128) ensures x == i128::MIN ==> r == i128::MAX, x != i128::MIN ==> r == -x;
pub assume_specification[ i128::unsigned_abs ](x: i128) -> (r: u128) ensures r as int == (if x < 0 { -(x as int) } else { x as int });
pub assume_specification[ i128::checked_abs ](x: i128) -> (r: Option<i128>) ensures x == i128::MIN ==> r.is_none(), x != i128::MIN ==> r == Some((if x < 0 { -x } else { x as int }) as i128);

// ---- include lib/greg.vrs ----
// Proleptic Gregorian calendar, defined from first principles (property C01).
// Nothing in this file comes from jiff's code.
pub open spec fn is_leap(y: int) -> bool { y % 4 == 0 && (y % 100 != 0 || y % 400 == 0) }
pub open spec fn dim(y: int, m: int) -> int {
    if m == 2 { if is_leap(y) { 29 } else { 28 } }
    else if m == 4 || m == 6 || m == 9 || m == 11 { 30 } else { 31 }
}
pub open spec fn diy(y: int) -> int { if is_leap(y) { 366 } else { 365 } }
pub open spec fn valid_ymd(y: int, m: int, d: int) -> bool {
    1 <= m <= 12 && 1 <= d <= dim(y, m)
}
pub open spec fn in_range_ymd(y: int, m: int, d: int) -> bool {
    -9999 <= y <= 9999 && valid_ymd(y, m, d)
}
// successor of a date, component-wise
pub open spec fn next_y(y: int, m: int, d: int) -> int { if d == dim(y, m) && m == 12 { y + 1 } else { y } }
pub open spec fn next_m(y: int, m: int, d: int) -> int { if d == dim(y, m) { if m == 12 { 1 } else { m + 1 } } else { m } }
pub open spec fn next_d(y: int, m: int, d: int) -> int { if d == dim(y, m) { 1 } else { d + 1 } }
pub open spec fn prev_y(y: int, m: int, d: int) -> int { if d == 1 && m == 1 { y - 1 } else { y } }
pub open spec fn prev_m(y: int, m: int, d: int) -> int { if d == 1 { if m == 1 { 12 } else { m - 1 } } else { m } }
pub open spec fn prev_d(y: int, m: int, d: int) -> int { if d == 1 { dim(prev_y(y, m, d), prev_m(y, m, d)) } else { d - 1 } }

// Closed form of "days since 1970-01-01".  lemma_rd_epoch + lemma_rd_succ show it is THE
// Gregorian day count (the unique function that is 0 at the epoch and +1 on successor).
pub open spec fn rd(y: int, m: int, d: int) -> int {
    let yy = if m <= 2 { y - 1 } else { y };
    let mm = if m <= 2 { m + 12 } else { m };
    365 * yy + yy / 4 - yy / 100 + yy / 400 + (153 * (mm - 3) + 2) / 5 + d - 1 - 719468
}
#[verifier::spinoff_prover]
pub proof fn lemma_rd_epoch()
    ensures rd(1970, 1, 1) == 0, rd(-9999, 1, 1) == -4371587, rd(9999, 12, 31) == 2932896,
{}
/// (153(mm-3)+2)/5 for the shifted month number mm = 3..14 (March..February)
pub open spec fn moff(mm: int) -> int {
    if mm == 3 { 0 } else if mm == 4 { 31 } else if mm == 5 { 61 } else if mm == 6 { 92 } else if mm == 7 { 122 } else if mm == 8 { 153 }
    else if mm == 9 { 184 } else if mm == 10 { 214 } else if mm == 11 { 245 } else if mm == 12 { 275 } else if mm == 13 { 306 } else { 337 }
}
#[verifier::spinoff_prover]
pub proof fn lemma_moff(mm: int)
    requires 3 <= mm <= 14,
    ensures (153 * (mm - 3) + 2) / 5 == moff(mm),
{
    if mm == 3 {} else if mm == 4 {} else if mm == 5 {} else if mm == 6 {} else if mm == 7 {} else if mm == 8 {}
    else if mm == 9 {} else if mm == 10 {} else if mm == 11 {} else if mm == 12 {} else if mm == 13 {} else {}
}
/// stepping from y-1 to y changes floor(y/k) by one exactly when k divides y
#[verifier::spinoff_prover]
pub proof fn lemma_div_step(y: int, k: int)
    requires k > 1,
    ensures y / k - (y - 1) / k == (if y % k == 0 { 1int } else { 0int }),
{
    let q = y / k; let r = y % k;
    vstd::arithmetic::div_mod::lemma_fundamental_div_mod(y, k);
    vstd::arithmetic::div_mod::lemma_mod_bound(y, k);
    assert(y == k * q + r && 0 <= r < k);
    if r == 0 {
        assert(y - 1 == (q - 1) * k + (k - 1)) by (nonlinear_arith) requires y == k * q + r, r == 0;
        vstd::arithmetic::div_mod::lemma_fundamental_div_mod_converse(y - 1, k, q - 1, k - 1);
    } else {
        assert(y - 1 == q * k + (r - 1)) by (nonlinear_arith) requires y == k * q + r;
        vstd::arithmetic::div_mod::lemma_fundamental_div_mod_converse(y - 1, k, q, r - 1);
    }
}
#[verifier::spinoff_prover]
pub proof fn lemma_divides_chain(y: int, a: int, b: int)
    requires a > 0, b > 0, y % (a * b) == 0,
    ensures y % a == 0,
{
    let q = y / (a * b);
    assert(a * b > 0) by (nonlinear_arith) requires a > 0, b > 0;
    vstd::arithmetic::div_mod::lemma_fundamental_div_mod(y, a * b);
    assert(y == (q * b) * a + 0) by (nonlinear_arith) requires y == (a * b) * q + y % (a * b), y % (a * b) == 0;
    vstd::arithmetic::div_mod::lemma_fundamental_div_mod_converse(y, a, q * b, 0);
}
/// how the three leap-year quotients change from y-1 to y
#[verifier::spinoff_prover]
pub proof fn lemma_leap_step(y: int)
    ensures y / 4 - (y - 1) / 4 == (if y % 4 == 0 { 1int } else { 0int }),
            y / 100 - (y - 1) / 100 == (if y % 100 == 0 { 1int } else { 0int }),
            y / 400 - (y - 1) / 400 == (if y % 400 == 0 { 1int } else { 0int }),
            y % 400 == 0 ==> y % 100 == 0, y % 100 == 0 ==> y % 4 == 0,
{
    lemma_div_step(y, 4); lemma_div_step(y, 100); lemma_div_step(y, 400);
    if y % 400 == 0 { lemma_divides_chain(y, 100, 4); }
    if y % 100 == 0 { lemma_divides_chain(y, 4, 25); }
}
/// rd with the month term replaced by the table
pub open spec fn rd_lin(y: int, m: int, d: int) -> int {
    let yy = if m <= 2 { y - 1 } else { y };
    let mm = if m <= 2 { m + 12 } else { m };
    365 * yy + yy / 4 - yy / 100 + yy / 400 + moff(mm) + d - 1 - 719468
}
#[verifier::spinoff_prover]
pub proof fn lemma_rd_lin(y: int, m: int, d: int)
    requires 1 <= m <= 12,
    ensures rd(y, m, d) == rd_lin(y, m, d),
{
    lemma_moff(if m <= 2 { m + 12 } else { m });
}
#[verifier::spinoff_prover]
pub proof fn lemma_rd_succ(y: int, m: int, d: int)
    requires valid_ymd(y, m, d),
    ensures valid_ymd(next_y(y, m, d), next_m(y, m, d), next_d(y, m, d)),
            rd(next_y(y, m, d), next_m(y, m, d), next_d(y, m, d)) == rd(y, m, d) + 1,
{
    lemma_rd_lin(y, m, d);
    lemma_rd_lin(next_y(y, m, d), next_m(y, m, d), next_d(y, m, d));
    lemma_leap_step(y);
}
#[verifier::spinoff_prover]
pub proof fn lemma_rd_pred(y: int, m: int, d: int)
    requires valid_ymd(y, m, d),
    ensures valid_ymd(prev_y(y, m, d), prev_m(y, m, d), prev_d(y, m, d)),
            rd(prev_y(y, m, d), prev_m(y, m, d), prev_d(y, m, d)) == rd(y, m, d) - 1,
{
    lemma_rd_lin(y, m, d);
    lemma_rd_lin(prev_y(y, m, d), prev_m(y, m, d), prev_d(y, m, d));
    lemma_leap_step(y);
}
// day-of-year (1-based) and its relation to rd
pub open spec fn days_before_month(y: int, m: int) -> int
    decreases m
{
    if m <= 1 { 0 } else { days_before_month(y, m - 1) + dim(y, m - 1) }
}
pub open spec fn doy(y: int, m: int, d: int) -> int { days_before_month(y, m) + d }
pub open spec fn dbm_tab(y: int, m: int) -> int {
    let l = if is_leap(y) { 1int } else { 0int };
    if m == 1 { 0 } else if m == 2 { 31 } else if m == 3 { 59 + l } else if m == 4 { 90 + l } else if m == 5 { 120 + l } else if m == 6 { 151 + l }
    else if m == 7 { 181 + l } else if m == 8 { 212 + l } else if m == 9 { 243 + l } else if m == 10 { 273 + l } else if m == 11 { 304 + l } else { 334 + l }
}
#[verifier::spinoff_prover]
pub proof fn lemma_dbm(y: int, m: int)
    requires 1 <= m <= 12,
    ensures days_before_month(y, m) == dbm_tab(y, m),
    decreases m
{
    if m > 1 { lemma_dbm(y, m - 1); }
}
#[verifier::spinoff_prover]
pub proof fn lemma_doy_rd(y: int, m: int, d: int)
    requires 1 <= m <= 12,
    ensures rd(y, m, d) == rd(y, 1, 1) + doy(y, m, d) - 1,
{
    lemma_dbm(y, m);
    lemma_rd_lin(y, m, d);
    lemma_rd_lin(y, 1, 1);
    lemma_leap_step(y);
}
#[verifier::spinoff_prover]
pub proof fn lemma_rd_year(y: int)
    ensures rd(y + 1, 1, 1) == rd(y, 1, 1) + diy(y),
{
    lemma_rd_lin(y, 1, 1); lemma_rd_lin(y + 1, 1, 1);
    lemma_leap_step(y);
}
// rd is strictly monotone in (y,m,d) lexicographic order on valid dates => injective.
#[verifier::spinoff_prover]
pub proof fn lemma_rd_month_mono(y: int, m1: int, d1: int, m2: int, d2: int)
    requires valid_ymd(y, m1, d1), valid_ymd(y, m2, d2), m1 < m2,
    ensures rd(y, m1, d1) < rd(y, m2, d2),
{
    lemma_doy_rd(y, m1, d1); lemma_doy_rd(y, m2, d2);
    lemma_dbm(y, m1); lemma_dbm(y, m2);
}
#[verifier::spinoff_prover]
pub proof fn lemma_rd_year_mono(y1: int, y2: int)
    requires y1 <= y2,
    ensures rd(y2, 1, 1) - rd(y1, 1, 1) >= 365 * (y2 - y1),
    decreases y2 - y1
{
    if y1 < y2 { lemma_rd_year_mono(y1, y2 - 1); lemma_rd_year(y2 - 1); }
}
#[verifier::spinoff_prover]
pub proof fn lemma_rd_mono(y1: int, m1: int, d1: int, y2: int, m2: int, d2: int)
    requires valid_ymd(y1, m1, d1), valid_ymd(y2, m2, d2),
             y1 < y2 || (y1 == y2 && (m1 < m2 || (m1 == m2 && d1 < d2))),
    ensures rd(y1, m1, d1) < rd(y2, m2, d2),
{
    if y1 < y2 {
        lemma_doy_rd(y1, m1, d1); lemma_doy_rd(y2, m2, d2);
        lemma_rd_year_mono(y1 + 1, y2); lemma_rd_year(y1);
        lemma_dbm(y1, m1); lemma_dbm(y2, m2);
    } else if m1 < m2 {
        lemma_rd_month_mono(y1, m1, d1, m2, d2);
    }
}
#[verifier::spinoff_prover]
pub proof fn lemma_rd_inj(y1: int, m1: int, d1: int, y2: int, m2: int, d2: int)
    requires valid_ymd(y1, m1, d1), valid_ymd(y2, m2, d2), rd(y1, m1, d1) == rd(y2, m2, d2),
    ensures y1 == y2 && m1 == m2 && d1 == d2,
{
    if y1 < y2 || (y1 == y2 && (m1 < m2 || (m1 == m2 && d1 < d2))) { lemma_rd_mono(y1, m1, d1, y2, m2, d2); }
    else if y2 < y1 || (y1 == y2 && (m2 < m1 || (m1 == m2 && d2 < d1))) { lemma_rd_mono(y2, m2, d2, y1, m1, d1); }
}
// ISO weekday 1=Monday..7=Sunday of day number e; day 0 (1970-01-01) is a Thursday (4), cyclic successor.
pub open spec fn wd(e: int) -> int { (e + 3) % 7 + 1 }
#[verifier::spinoff_prover]
pub proof fn lemma_wd()
    ensures wd(0) == 4, forall|e: int| #[trigger] wd(e + 1) == (if wd(e) == 7 { 1int } else { wd(e) + 1 }),
{}

// ---- lemmas over plain integers used by the units (moved here from itime_views.vrs so that units without the itime structs can include them)
pub open spec fn nth_first_day(y: int, m: int, w: int) -> int { 1 + (w - wd(rd(y, m, 1))) % 7 }
pub open spec fn nth_last_day(y: int, m: int, w: int) -> int { dim(y, m) - (wd(rd(y, m, dim(y, m))) - w) % 7 }
/// x == 7*q + r with 0 <= r < 7 determines x % 7
#[verifier::spinoff_prover]
pub proof fn lemma_mod7(x: int, q: int, r: int)
    requires x == 7 * q + r, 0 <= r < 7,
    ensures x % 7 == r,
{
    assert(x == q * 7 + r);
    vstd::arithmetic::div_mod::lemma_fundamental_div_mod_converse(x, 7, q, r);
}
#[verifier::spinoff_prover]
pub proof fn lemma_wd_arith(e: int, w: int, k: int)
    requires 1 <= w <= 7,
    ensures wd(e + (w - wd(e)) % 7 + 7 * k) == w, wd(e - (wd(e) - w) % 7 - 7 * k) == w,
            0 <= (w - wd(e)) % 7 <= 6, 0 <= (wd(e) - w) % 7 <= 6,
{
    let a = (e + 3) % 7; let q = (e + 3) / 7;
    vstd::arithmetic::div_mod::lemma_fundamental_div_mod(e + 3, 7);
    vstd::arithmetic::div_mod::lemma_mod_bound(e + 3, 7);
    assert(e + 3 == 7 * q + a && 0 <= a < 7 && wd(e) == a + 1);
    // forward
    let x1 = w - wd(e); let t1 = x1 % 7; let p1 = x1 / 7;
    vstd::arithmetic::div_mod::lemma_fundamental_div_mod(x1, 7);
    vstd::arithmetic::div_mod::lemma_mod_bound(x1, 7);
    assert(x1 == 7 * p1 + t1 && 0 <= t1 < 7);
    lemma_mod7(e + t1 + 7 * k + 3, q + k - p1, w - 1);
    // backward
    let x2 = wd(e) - w; let t2 = x2 % 7; let p2 = x2 / 7;
    vstd::arithmetic::div_mod::lemma_fundamental_div_mod(x2, 7);
    vstd::arithmetic::div_mod::lemma_mod_bound(x2, 7);
    assert(x2 == 7 * p2 + t2 && 0 <= t2 < 7);
    lemma_mod7(e - t2 - 7 * k + 3, q - k + p2, w - 1);
}
#[verifier::spinoff_prover]
pub proof fn lemma_nth_day(y: int, m: int, w: int, k: int)
    requires 1 <= m <= 12, 1 <= w <= 7,
    ensures 1 <= nth_first_day(y, m, w) <= 7, wd(rd(y, m, nth_first_day(y, m, w) + 7 * k)) == w,
            0 <= dim(y, m) - nth_last_day(y, m, w) <= 6, wd(rd(y, m, nth_last_day(y, m, w) - 7 * k)) == w,
{
    let e1 = rd(y, m, 1);
    let e2 = rd(y, m, dim(y, m));
    lemma_wd_arith(e1, w, k);
    lemma_wd_arith(e2, w, k);
    assert(rd(y, m, nth_first_day(y, m, w) + 7 * k) == e1 + (w - wd(e1)) % 7 + 7 * k);
    assert(rd(y, m, nth_last_day(y, m, w) - 7 * k) == e2 - (wd(e2) - w) % 7 - 7 * k);
}
#[verifier::spinoff_prover]
pub proof fn lemma_rd_bounds(y: int, m: int, d: int)
    requires in_range_ymd(y, m, d),
    ensures -4371587 <= rd(y, m, d) <= 2932896,
            (rd(y, m, d) == -4371587 <==> (y == -9999 && m == 1 && d == 1)),
            (rd(y, m, d) == 2932896 <==> (y == 9999 && m == 12 && d == 31)),
{
    lemma_rd_epoch();
    if !(y == -9999 && m == 1 && d == 1) { lemma_rd_mono(-9999, 1, 1, y, m, d); }
    if !(y == 9999 && m == 12 && d == 31) { lemma_rd_mono(y, m, d, 9999, 12, 31); }
}
#[verifier::spinoff_prover]
pub proof fn lemma_year_of_rd(y: int, m: int, d: int)
    requires valid_ymd(y, m, d),
    ensures rd(y, 1, 1) <= rd(y, m, d) < rd(y + 1, 1, 1),
{
    lemma_doy_rd(y, m, d); lemma_rd_year(y);
    lemma_dbm(y, m);
}

#[verifier::rlimit(200)]
#[verifier::spinoff_prover]
pub proof fn lemma_mulshift(k: u64)
    requires k <= 36524,
    ensures ({ let n = 4 * k + 3; (2939745 * n) / 4294967296 == n / 1461 }),
            ({ let n = 4 * k + 3; ((2939745 * n) % 4294967296) / 2939745 / 4 == (n % 1461) / 4 }),
{
    assert(k <= 36524 ==> ({ let n = (4 * k + 3) as u64; (2939745 * n) / 4294967296 == n / 1461 })) by (bit_vector);
    assert(k <= 36524 ==> ({ let n = (4 * k + 3) as u64; ((2939745 * n) % 4294967296) / 2939745 / 4 == (n % 1461) / 4 })) by (bit_vector);
}
#[verifier::spinoff_prover]
pub proof fn lemma_month(ny: u32)
    requires ny < 366,
    ensures ({
        let n3 = 2141 * ny + 197913;
        let m = n3 / 65536;
        let d = (n3 % 65536) / 2141;
        3 <= m <= 14 && d <= 30 && ny as int == (153 * (m as int - 3) + 2) / 5 + d as int
        && (m == 14 ==> d <= 28) && ((m == 4 || m == 6 || m == 9 || m == 11) ==> d <= 29)
        && (ny >= 306 <==> m >= 13) && (m == 14 && d == 28 ==> ny == 365)
    }),
{
    assert(ny < 366 ==> ({
        let n3 = (2141 * ny + 197913) as u32;
        let m = n3 / 65536;
        let d = (n3 % 65536) / 2141;
        3 <= m && m <= 14 && d <= 30 && ny == (153 * (m - 3) + 2) / 5 + d
        && (m == 14 ==> d <= 28) && ((m == 4 || m == 6 || m == 9 || m == 11) ==> d <= 29)
        && (ny >= 306 <==> m >= 13) && (m == 14 && d == 28 ==> ny == 365)
    })) by (bit_vector);
}
// q = (4n+3)/P, r = ((4n+3)%P)/4 with P = 4p+1  ==> n == p*q + q/4 + r, and (r == p ==> q%4 == 3)
#[verifier::spinoff_prover]
pub proof fn lemma_cycle(n: int, p: int)
    requires n >= 0, p > 0,
    ensures ({
        let big = 4 * p + 1;
        let q = (4 * n + 3) / big;
        let r = ((4 * n + 3) % big) / 4;
        n == p * q + q / 4 + r && 0 <= r <= p && (r == p ==> q % 4 == 3)
    }),
{
    let big = 4 * p + 1;
    let n1 = 4 * n + 3;
    let q = n1 / big;
    let r1 = n1 % big;
    let r = r1 / 4;
    assert(n1 == big * q + r1) by { vstd::arithmetic::div_mod::lemma_fundamental_div_mod(n1, big); }
    assert(0 <= r1 < big) by { vstd::arithmetic::div_mod::lemma_mod_bound(n1, big); }
    let a = q / 4; let b = q % 4;
    let t = r1 % 4;
    assert(q == 4 * a + b);
    assert(r1 == 4 * r + t);
    assert(big * q == 4 * p * q + q) by (nonlinear_arith) requires big == 4 * p + 1;
    assert(4 * n + 3 == 4 * (p * q) + 4 * a + b + 4 * r + t) by (nonlinear_arith)
        requires n1 == big * q + r1, big * q == 4 * p * q + q, q == 4 * a + b, r1 == 4 * r + t, n1 == 4 * n + 3;
    assert(b + t == 3);
}

/// the arithmetic heart of Neri-Schneider's to_date, over plain integers
#[verifier::spinoff_prover]
pub proof fn lemma_ns_final(e: int, c: int, z: int, ny: int, mm: int, dd: int)
    requires
        -4371587 <= e <= 2932896,
        228 <= c <= 428, 0 <= z <= 99, 0 <= ny <= 365,
        e + 12699422 == 36524 * c + c / 4 + (365 * z + z / 4 + ny),
        3 <= mm <= 14, 0 <= dd <= 30,
        ny == moff(mm) + dd,
        mm == 14 ==> dd <= 28, (mm == 4 || mm == 6 || mm == 9 || mm == 11) ==> dd <= 29,
        (ny >= 306) <==> (mm >= 13),
        mm == 14 && dd == 28 ==> ny == 365,
        // ny == 365 only in the last year of a 4-year cycle, and the 4-year cycle's 1461st day only in the last of a 400-year cycle
        ny == 365 ==> z % 4 == 3,
        (365 * z + z / 4 + ny) == 36524 ==> c % 4 == 3,
    ensures ({
        let yy = 100 * c + z - 32800;
        let j = if ny >= 306 { 1int } else { 0int };
        let year = yy + j;
        let month = if ny >= 306 { mm - 12 } else { mm };
        let day = dd + 1;
        -9999 <= year <= 9999 && valid_ymd(year, month, day) && rd(year, month, day) == e
    }),
{
    let yy = 100 * c + z - 32800;
    let j = if ny >= 306 { 1int } else { 0int };
    let year = yy + j;
    let month = if ny >= 306 { mm - 12 } else { mm };
    let day = dd + 1;
    let big = 100 * c + z;
    assert(big / 4 == 25 * c + z / 4);
    assert(big / 100 == c);
    assert(big / 400 == c / 4);
    assert(yy / 4 == big / 4 - 8200);
    assert(yy / 100 == big / 100 - 328);
    assert(yy / 400 == big / 400 - 82);
    lemma_rd_lin(year, month, day);
    // leap status of the March-based year yy+1 decides whether Feb 29 (mm == 14, dd == 28) exists
    if mm == 14 && dd == 28 {
        let y1 = yy + 1;
        assert(z % 4 == 3);
        assert(y1 % 4 == 0);
        if z == 99 { assert((365 * z + z / 4 + ny) == 36524); assert(c % 4 == 3); assert(y1 % 400 == 0); }
        else { assert(y1 % 100 != 0); }
    }
}

// One specification for both tools: the executable reference functions that the Kani harnesses use
// (contracts/kani/spec.rs) are proved here to equal the spec fns of lib/greg.vrs on their whole domain.
pub open spec fn g_is_leap(y: int) -> bool { is_leap(y) }
pub open spec fn g_dim(y: int, m: int) -> int { dim(y, m) }
pub open spec fn g_diy(y: int) -> int { diy(y) }
pub open spec fn g_valid(y: int, m: int, d: int) -> bool { in_range_ymd(y, m, d) }
pub open spec fn g_next(y: int, m: int, d: int) -> (int, int, int) { (next_y(y, m, d), next_m(y, m, d), next_d(y, m, d)) }
pub open spec fn g_prev(y: int, m: int, d: int) -> (int, int, int) { (prev_y(y, m, d), prev_m(y, m, d), prev_d(y, m, d)) }
pub open spec fn g_dbm(y: int, m: int) -> int { days_before_month(y, m) }
pub open spec fn g_doy(y: int, m: int, d: int) -> int { doy(y, m, d) }
pub open spec fn g_wd(e: int) -> int { wd(e) }

// ==== extracted from /repo ====
// @fn is_leap @src @verif/contracts/kani/spec.rs:12
#[verifier::spinoff_prover]
pub fn k_is_leap(y: i64) -> (r: bool)
    requires
        -100000 <= y <= 100000,
    ensures
        r == g_is_leap(y as int),
{
    y % 4 == 0 && (y % 100 != 0 || y % 400 == 0)
}

// @fn dim @src @verif/contracts/kani/spec.rs:15
#[verifier::spinoff_prover]
pub fn k_dim(y: i64, m: i64) -> (r: i64)
    requires
        -100000 <= y <= 100000, 1 <= m <= 12,
    ensures
        r == g_dim(y as int, m as int),
{
    if m == 2 {
        if k_is_leap(y) { 29 } else { 28 }
    } else if m == 4 || m == 6 || m == 9 || m == 11 {
        30
    } else {
        31
    }
}

// @fn diy @src @verif/contracts/kani/spec.rs:24
#[verifier::spinoff_prover]
pub fn k_diy(y: i64) -> (r: i64)
    requires
        -100000 <= y <= 100000,
    ensures
        r == g_diy(y as int),
{
    if k_is_leap(y) { 366 } else { 365 }
}

// @fn valid @src @verif/contracts/kani/spec.rs:27
#[verifier::spinoff_prover]
pub fn k_valid(y: i64, m: i64, d: i64) -> (r: bool)
    requires
        -100000 <= y <= 100000, -1000 <= m <= 1000, -1000 <= d <= 1000,
    ensures
        r == g_valid(y as int, m as int, d as int),
{
    -9999 <= y && y <= 9999 && 1 <= m && m <= 12 && 1 <= d && d <= k_dim(y, m)
}

// @fn next @src @verif/contracts/kani/spec.rs:30
#[verifier::spinoff_prover]
pub fn k_next(y: i64, m: i64, d: i64) -> (r: (i64, i64, i64))
    requires
        g_valid(y as int, m as int, d as int),
    ensures
        r.0 == g_next(y as int, m as int, d as int).0, r.1 == g_next(y as int, m as int, d as int).1, r.2 == g_next(y as int, m as int, d as int).2,
{
    if d == k_dim(y, m) {
        if m == 12 { (y + 1, 1, 1) } else { (y, m + 1, 1) }
    } else {
        (y, m, d + 1)
    }
}

// @fn prev @src @verif/contracts/kani/spec.rs:37
#[verifier::spinoff_prover]
pub fn k_prev(y: i64, m: i64, d: i64) -> (r: (i64, i64, i64))
    requires
        g_valid(y as int, m as int, d as int),
    ensures
        r.0 == g_prev(y as int, m as int, d as int).0, r.1 == g_prev(y as int, m as int, d as int).1, r.2 == g_prev(y as int, m as int, d as int).2,
{
    if d == 1 {
        if m == 1 { (y - 1, 12, 31) } else { (y, m - 1, k_dim(y, m - 1)) }
    } else {
        (y, m, d - 1)
    }
}

// @fn days_before_month @src @verif/contracts/kani/spec.rs:45
#[verifier::spinoff_prover]
pub fn k_days_before_month(y: i64, m: i64) -> (r: i64)
    requires
        -100000 <= y <= 100000, 1 <= m <= 12,
    ensures
        r == g_dbm(y as int, m as int),
{
    proof { lemma_dbm(y as int, m as int); }

    let l = if k_is_leap(y) { 1 } else { 0 };
    match m {
        1 => 0,
        2 => 31,
        3 => 59 + l,
        4 => 90 + l,
        5 => 120 + l,
        6 => 151 + l,
        7 => 181 + l,
        8 => 212 + l,
        9 => 243 + l,
        10 => 273 + l,
        11 => 304 + l,
        _ => 334 + l,
    }
}

// @fn doy @src @verif/contracts/kani/spec.rs:62
#[verifier::spinoff_prover]
pub fn k_doy(y: i64, m: i64, d: i64) -> (r: i64)
    requires
        -100000 <= y <= 100000, 1 <= m <= 12, 1 <= d <= 31,
    ensures
        r == g_doy(y as int, m as int, d as int),
{
    proof { lemma_dbm(y as int, m as int); }

    k_days_before_month(y, m) + d
}

// @fn wd @src @verif/contracts/kani/spec.rs:66
#[verifier::spinoff_prover]
pub fn k_wd(e: i64) -> (r: i64)
    requires
        -100_000_000 <= e <= 100_000_000,
    ensures
        r == g_wd(e as int),
{
    (e + 3).rem_euclid(7) + 1
}

// ==== end extracted ====


} // verus!
fn main() {}
