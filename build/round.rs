#![allow(unused, non_snake_case, non_upper_case_globals)]
use vstd::prelude::*;
verus! {
// ---- include lib/stdspecs.vrs ----
// Specifications of core integer methods that vstd 0.2026.09.13 does not provide (trusted; each mirrors the std documentation).
// Included by every unit so that an edited body that starts using one of them is still decided.
pub assume_specification[ i8::div_euclid ](x: i8, y: i8) -> (r: i8) requires y != 0, !(x == i8::MIN && y == -1), ensures y > 0 ==> r as int == (x as int) / (y as int);
pub assume_specification[ i8::rem_euclid ](x: i8, y: i8) -> (r: i8) requires y != 0, !(x == i8::MIN && y == -1), ensures y > 0 ==> r as int == (x as int) % (y as int), y < 0 ==> r as int == (x as int) % (-(y as int));
pub assume_specification[ i8::abs ](x: i8) -> (r: i8) requires x != i8::MIN, ensures r as int == (if x < 0 { -(x as int) } else { x as int });
pub assume_specification[ i8::signum ](x: i8) -> (r: i8) ensures r == (if x > 0 { 1int } else if x < 0 { -1int } else { 0int });
pub assume_specification[ i8::is_positive ](x: i8) -> (r: bool) ensures r == (x > 0);
pub assume_specification[ i8::is_negative ](x: i8) -> (r: bool) ensures r == (x < 0);
pub assume_specification[ i8::checked_neg ](x: i8) -> (r: Option<i8>) ensures x == i8::MIN ==> r.is_none(), x != i8::MIN ==> r == Some((-x) as i8);
pub assume_specification[ i8::saturating_add ](x: i8, y: i8) -> (r: i8) ensures i8::MIN <= x + y <= i8::MAX ==> r == x + y, x + y > i8::MAX ==> r == i8::MAX, x + y < i8::MIN ==> r == i8::MIN;
pub assume_specification[ i8::saturating_sub ](x: i8, y: i8) -> (r: i8) ensures i8::MIN <= x - y <= i8::MAX ==> r == x - y, x - y > i8::MAX ==> r == i8::MAX, x - y < i8::MIN ==> r == i8::MIN;
pub assume_specification[ i8::saturating_neg ](x: i8) -> (r: i8) ensures x == i8::MIN ==> r == i8::MAX, x != i8::MIN ==> r == -x;
pub assume_specification[ i8::unsigned_abs ](x: i8) -> (r: u8) ensures r as int == (if x < 0 { -(x as int) } else { x as int });
pub assume_specification[ i8::checked_abs ](x: i8) -> (r: Option<i8>) ensures x == i8::MIN ==> r.is_none(), x != i8::MIN ==> r == Some((if x < 0 { -x } else { x as int }) as i8);
pub assume_specification[ i16::div_euclid ](x: i16, y: i16) -> (r: i16) requires y != 0, !(x == i16::MIN && y == -1), ensures y > 0 ==> r as int == (x as int) / (y as int);
pub assume_specification[ i16::rem_euclid ](x: i16, y: i16) -> (r: i16) requires y != 0, !(x == i16::MIN && y == -1), ensures y > 0 ==> r as int == (x as int) % (y as int), y < 0 ==> r as int == (x as int) % (-(y as int));
pub assume_specification[ i16::abs ](x: i16) -> (r: i16) requires x != i16::MIN, ensures r as int == (if x < 0 { -(x as int) } else { x as int });
pub assume_specification[ i16::signum ](x: i16) -> (r: i16) ensures r == (if x > 0 { 1int } else if x < 0 { -1int } else { 0int });
pub assume_specification[ i16::is_positive ](x: i16) -> (r: bool) ensures r == (x > 0);
pub assume_specification[ i16::is_negative ](x: i16) -> (r: bool) ensures r == (x < 0);
pub assume_specification[ i16::checked_neg ](x: i16) -> (r: Option<i16>) ensures x == i16::MIN ==> r.is_none(), x != i16::MIN ==> r == Some((-x) as i16);
pub assume_specification[ i16::saturating_add ](x: i16, y: i16) -> (r: i16) ensures i16::MIN <= x + y <= i16::MAX ==> r == x + y, x + y > i16::MAX ==> r == i16::MAX, x + y < i16::MIN ==> r == i16::MIN;
pub assume_specification[ i16::saturating_sub ](x: i16, y: i16) -> (r: i16) ensures i16::MIN <= x - y <= i16::MAX ==> r == x - y, x - y > i16::MAX ==> r == i16::MAX, x - y < i16::MIN ==> r == i16::MIN;
pub assume_specification[ i16::saturating_neg ](x: i16) -> (r: i16) ensures x == i16::MIN ==> r == i16::MAX, x != i16::MIN ==> r == -x;
pub assume_specification[ i16::unsigned_abs ](x: i16) -> (r: u16) ensures r as int == (if x < 0 { -(x as int) } else { x as int });
pub assume_specification[ i16::checked_abs ](x: i16) -> (r: Option<i16>) ensures x == i16::MIN ==> r.is_none(), x != i16::MIN ==> r == Some((if x < 0 { -x } else { x as int }) as i16);
pub assume_specification[ i32::div_euclid ](x: i32, y: i32) -> (r: i32) requires y != 0, !(x == i32::MIN && y == -1), ensures y > 0 ==> r as int == (x as int) / (y as int);
pub assume_specification[ i32::rem_euclid ](x: i32, y: i32) -> (r: i32) requires y != 0, !(x == i32::MIN && y == -1), ensures y > 0 ==> r as int == (x as int) % (y as int), y < 0 ==> r as int == (x as int) % (-(y as int));
pub assume_specification[ i32::abs ](x: i32) -> (r: i32) requires x != i32::MIN, ensures r as int == (if x < 0 { -(x as int) } else { x as int });
pub assume_specification[ i32::signum ](x: i32) -> (r: i32) ensures r == (if x > 0 { 1int } else if x < 0 { -1int } else { 0int });
pub assume_specification[ i32::is_positive ](x: i32) -> (r: bool) ensures r == (x > 0);
pub assume_specification[ i32::is_negative ](x: i32) -> (r: bool) ensures r == (x < 0);
pub assume_specification[ i32::checked_neg ](x: i32) -> (r: Option<i32>) ensures x == i32::MIN ==> r.is_none(), x != i32::MIN ==> r == Some((-x) as i32);
pub assume_specification[ i32::saturating_add ](x: i32, y: i32) -> (r: i32) ensures i32::MIN <= x + y <= i32::MAX ==> r == x + y, x + y > i32::MAX ==> r == i32::MAX, x + y < i32::MIN ==> r == i32::MIN;
pub assume_specification[ i32::saturating_sub ](x: i32, y: i32) -> (r: i32) ensures i32::MIN <= x - y <= i32::MAX ==> r == x - y, x - y > i32::MAX ==> r == i32::MAX, x - y < i32::MIN ==> r == i32::MIN;
pub assume_specification[ i32::saturating_neg ](x: i32) -> (r: i32) ensures x == i32::MIN ==> r == i32::MAX, x != i32::MIN ==> r == -x;
pub assume_specification[ i32::unsigned_abs ](x: i32) -> (r: u32) ensures r as int == (if x < 0 { -(x as int) } else { x as int });
pub assume_specification[ i32::checked_abs ](x: i32) -> (r: Option<i32>) ensures x == i32::MIN ==> r.is_none(), x != i32::MIN ==> r == Some((if x < 0 { -x } else { x as int }) as i32);
pub assume_specification[ i64::div_euclid ](x: i64, y: i64) -> (r: i64) requires y != 0, !(x == i64::MIN && y == -1), ensures y > 0 ==> r as int == (x as int) / (y as int);
pub assume_specification[ i64::rem_euclid ](x: i64, y: i64) -> (r: i64) requires y != 0, !(x == i64::MIN && y == -1), ensures y > 0 ==> r as int == (x as int) % (y as int), y < 0 ==> r as int == (x as int) % (-(y as int));
pub assume_specification[ i64::abs ](x: i64) -> (r: i64) requires x != i64::MIN, ensures r as int == (if x < 0 { -(x as int) } else { x as int });
pub assume_specification[ i64::signum ](x: i64) -> (r: i64) ensures r == (if x > 0 { 1int } else if x < 0 { -1int } else { 0int });
pub assume_specification[ i64::is_positive ](x: i64) -> (r: bool) ensures r == (x > 0);
pub assume_specification[ i64::is_negative ](x: i64) -> (r: bool) ensures r == (x < 0);
pub assume_specification[ i64::checked_neg ](x: i64) -> (r: Option<i64>) ensures x == i64::MIN ==> r.is_none(), x != i64::MIN ==> r == Some((-x) as i64);
pub assume_specification[ i64::saturating_add ](x: i64, y: i64) -> (r: i64) ensures i64::MIN <= x + y <= i64::MAX ==> r == x + y, x + y > i64::MAX ==> r == i64::MAX, x + y < i64::MIN ==> r == i64::MIN;
pub assume_specification[ i64::saturating_sub ](x: i64, y: i64) -> (r: i64) ensures i64::MIN <= x - y <= i64::MAX ==> r == x - y, x - y > i64::MAX ==> r == i64::MAX, x - y < i64::MIN ==> r == i64::MIN;
pub assume_specification[ i64::saturating_neg ](x: i64) -> (r: i64) ensures x == i64::MIN ==> r == i64::MAX, x != i64::MIN ==> r == -x;
pub assume_specification[ i64::unsigned_abs ](x: i64) -> (r: u64) ensures r as int == (if x < 0 { -(x as int) } else { x as int });
pub assume_specification[ i64::checked_abs ](x: i64) -> (r: Option<i64>) ensures x == i64::MIN ==> r.is_none(), x != i64::MIN ==> r == Some((if x < 0 { -x } else { x as int }) as i64);
pub assume_specification[ i128::div_euclid ](x: i128, y: i128) -> (r: i128) requires y != 0, !(x == i128::MIN && y == -1), ensures y > 0 ==> r as int == (x as int) / (y as int);
pub assume_specification[ i128::rem_euclid ](x: i128, y: i128) -> (r: i128) requires y != 0, !(x == i128::MIN && y == -1), ensures y > 0 ==> r as int == (x as int) % (y as int), y < 0 ==> r as int == (x as int) % (-(y as int));
pub assume_specification[ i128::abs ](x: i128) -> (r: i128) requires x != i128::MIN, ensures r as int == (if x < 0 { -(x as int) } else { x as int });
pub assume_specification[ i128::signum ](x: i128) -> (r: i128) ensures r == (if x > 0 { 1int } else if x < 0 { -1int } else { 0int });
pub assume_specification[ i128::is_positive ](x: i128) -> (r: bool) ensures r == (x > 0);
pub assume_specification[ i128::is_negative ](x: i128) -> (r: bool) ensures r == (x < 0);
pub assume_specification[ i128::checked_neg ](x: i128) -> (r: Option<i128>) ensures x == i128::MIN ==> r.is_none(), x != i128::MIN ==> r == Some((-x) as i128);
pub assume_specification[ i128::saturating_add ](x: i128, y: i128) -> (r: i128) ensures i128::MIN <= x + y <= i128::MAX ==> r == x + y, x + y > i128::MAX ==> r == i128::MAX, x + y < i128::MIN ==> r == i128::MIN;
pub assume_specification[ i128::saturating_sub ](x: i128, y: i128) -> (r: i128) ensures i128::MIN <= x - y <= i128::MAX ==> r == x - y, x - y > i128::MAX ==> r == i128::MAX, x - y < i128::MIN ==> r == i128::MIN;
pub assume_specification[ i128::saturating_neg ](x: i128) -> (r: i128) ensures x == i128::MIN ==> r == i128::MAX, x != i128::MIN ==> r == -x;
pub assume_specification[ i128::unsigned_abs ](x: i128) -> (r: u128) ensures r as int == (if x < 0 { -(x as int) } else { x as int });
pub assume_specification[ i128::checked_abs ](x: i128) -> (r: Option<i128>) ensures x == i128::MIN ==> r.is_none(), x != i128::MIN ==> r == Some((if x < 0 { -x } else { x as int }) as i128);

// ---- include lib/rangeint128.vrs ----
// Rangeint model (T2): release-mode meaning of the ri128 operations used by the extracted bodies.
// Every ensures/spec here is a named obligation proved by Kani on the real macro-expanded operation (group c10_model).
use vstd::std_specs::cmp::*;
use vstd::std_specs::ops::*;
use core::cmp::Ordering;
#[derive(Clone, Copy)]
pub struct NoUnits128 { pub val: i128 }
#[derive(Clone, Copy)]
pub struct Constant(pub i64);
pub fn C(v: i64) -> (r: Constant) ensures r.0 == v { Constant(v) }
pub fn C128(v: i64) -> (r: NoUnits128) ensures r.val == v { NoUnits128 { val: v as i128 } }

// ---- PartialEq / PartialOrd against Constant and Self ----
impl PartialEqSpecImpl<Constant> for NoUnits128 {
    open spec fn obeys_eq_spec() -> bool { true }
    open spec fn eq_spec(&self, other: &Constant) -> bool { self.val == other.0 }
}
impl PartialEq<Constant> for NoUnits128 {
    fn eq(&self, other: &Constant) -> bool { self.val == other.0 as i128 }
}
impl PartialEqSpecImpl for NoUnits128 {
    open spec fn obeys_eq_spec() -> bool { true }
    open spec fn eq_spec(&self, other: &NoUnits128) -> bool { self.val == other.val }
}
impl PartialEq for NoUnits128 {
    fn eq(&self, other: &NoUnits128) -> bool { self.val == other.val }
}
pub open spec fn int_cmp(a: int, b: int) -> Ordering { if a < b { Ordering::Less } else if a > b { Ordering::Greater } else { Ordering::Equal } }
impl PartialOrdSpecImpl<Constant> for NoUnits128 {
    open spec fn obeys_partial_cmp_spec() -> bool { true }
    open spec fn partial_cmp_spec(&self, other: &Constant) -> Option<Ordering> { Some(int_cmp(self.val as int, other.0 as int)) }
}
impl PartialOrd<Constant> for NoUnits128 {
    fn partial_cmp(&self, other: &Constant) -> Option<Ordering> {
        let o = other.0 as i128;
        if self.val < o { Some(Ordering::Less) } else if self.val > o { Some(Ordering::Greater) } else { Some(Ordering::Equal) }
    }
}
impl PartialOrdSpecImpl for NoUnits128 {
    open spec fn obeys_partial_cmp_spec() -> bool { true }
    open spec fn partial_cmp_spec(&self, other: &NoUnits128) -> Option<Ordering> { Some(int_cmp(self.val as int, other.val as int)) }
}
impl PartialOrd for NoUnits128 {
    fn partial_cmp(&self, other: &NoUnits128) -> Option<Ordering> {
        if self.val < other.val { Some(Ordering::Less) } else if self.val > other.val { Some(Ordering::Greater) } else { Some(Ordering::Equal) }
    }
}


impl MulSpecImpl for NoUnits128 {
    open spec fn obeys_mul_spec() -> bool { true }
    open spec fn mul_req(self, rhs: NoUnits128) -> bool { i128::MIN <= self.val * rhs.val <= i128::MAX }
    open spec fn mul_spec(self, rhs: NoUnits128) -> NoUnits128 { NoUnits128 { val: (self.val * rhs.val) as i128 } }
}
impl core::ops::Mul for NoUnits128 {
    type Output = NoUnits128;
    fn mul(self, rhs: NoUnits128) -> NoUnits128 { NoUnits128 { val: self.val * rhs.val } }
}
impl AddAssignSpecImpl for NoUnits128 {
    open spec fn obeys_add_assign_spec() -> bool { true }
    open spec fn add_assign_req(&self, rhs: NoUnits128) -> bool { i128::MIN <= self.val + rhs.val <= i128::MAX }
    open spec fn add_assign_spec(&self, rhs: NoUnits128) -> &NoUnits128 { &NoUnits128 { val: (self.val + rhs.val) as i128 } }
}
impl core::ops::AddAssign for NoUnits128 {
    fn add_assign(&mut self, rhs: NoUnits128) { self.val = self.val + rhs.val; }
}
impl RemSpecImpl<Constant> for NoUnits128 {
    open spec fn obeys_rem_spec() -> bool { true }
    open spec fn rem_req(self, rhs: Constant) -> bool { rhs.0 > 0 }
    open spec fn rem_spec(self, rhs: Constant) -> NoUnits128 { NoUnits128 { val: (self.val as int % rhs.0 as int) as i128 } }
}
impl core::ops::Rem<Constant> for NoUnits128 {
    type Output = NoUnits128;
    #[verifier::external_body]
    fn rem(self, rhs: Constant) -> NoUnits128 { NoUnits128 { val: self.val.rem_euclid(rhs.0 as i128) } }
}
pub open spec fn tdiv(a: int, b: int) -> int { if a >= 0 { a / b } else { -((-a) / b) } }   // truncating, b > 0
pub open spec fn trem(a: int, b: int) -> int { a - tdiv(a, b) * b }
impl NoUnits128 {
    #[verifier::external_body]
    pub fn div_ceil(self, rhs: NoUnits128) -> (r: NoUnits128)
        requires rhs.val > 0,
        ensures r.val == tdiv(self.val as int, rhs.val as int)
    { NoUnits128 { val: self.val.wrapping_div(rhs.val) } }
    #[verifier::external_body]
    pub fn rem_ceil(self, rhs: NoUnits128) -> (r: NoUnits128)
        requires rhs.val > 0,
        ensures r.val == trem(self.val as int, rhs.val as int)
    { NoUnits128 { val: self.val.wrapping_rem(rhs.val) } }
    #[verifier::external_body]
    pub fn abs(self) -> (r: NoUnits128)
        requires self.val > i128::MIN,
        ensures r.val == (if self.val < 0 { -self.val } else { self.val as int })
    { NoUnits128 { val: self.val.abs() } }
    #[verifier::external_body]
    pub fn saturating_mul(self, rhs: NoUnits128) -> (r: NoUnits128)
        ensures i128::MIN <= self.val * rhs.val <= i128::MAX ==> r.val == self.val * rhs.val,
                self.val * rhs.val > i128::MAX ==> r.val == i128::MAX,
                self.val * rhs.val < i128::MIN ==> r.val == i128::MIN,
    { NoUnits128 { val: self.val.saturating_mul(rhs.val) } }
}


// ---- include lib/tdiv.vrs ----
pub proof fn lemma_tdiv(q: int, inc: int)
    requires inc > 0,
    ensures q == tdiv(q, inc) * inc + trem(q, inc), -inc < trem(q, inc) < inc,
            q >= 0 ==> 0 <= trem(q, inc) <= q, q <= 0 ==> q <= trem(q, inc) <= 0,
            -0x4000_0000_0000_0000_0000_0000 <= q <= 0x4000_0000_0000_0000_0000_0000 ==> -0x4000_0000_0000_0000_0000_0000 <= tdiv(q, inc) <= 0x4000_0000_0000_0000_0000_0000,
{
    if q >= 0 {
        vstd::arithmetic::div_mod::lemma_fundamental_div_mod(q, inc);
        vstd::arithmetic::div_mod::lemma_mod_bound(q, inc);
        assert(inc * (q / inc) == (q / inc) * inc) by (nonlinear_arith);
        assert(0 <= q / inc <= q) by (nonlinear_arith) requires q >= 0, inc > 0, q == inc * (q / inc) + q % inc, 0 <= q % inc < inc;
    } else {
        let p = -q;
        vstd::arithmetic::div_mod::lemma_fundamental_div_mod(p, inc);
        vstd::arithmetic::div_mod::lemma_mod_bound(p, inc);
        assert(inc * (p / inc) == (p / inc) * inc) by (nonlinear_arith);
        assert((-(p / inc)) * inc == -((p / inc) * inc)) by (nonlinear_arith);
        assert(0 <= p / inc <= p) by (nonlinear_arith) requires p >= 0, inc > 0, p == inc * (p / inc) + p % inc, 0 <= p % inc < inc;
    }
}

// ---- include lib/roundspec.vrs ----
// C10: what "rounding q to a multiple of inc under mode" means, from the property statement.
pub open spec fn is_half(mode: RoundMode) -> bool {
    mode == RoundMode::HalfCeil || mode == RoundMode::HalfFloor || mode == RoundMode::HalfExpand || mode == RoundMode::HalfTrunc || mode == RoundMode::HalfEven
}
pub open spec fn is_tie(q: int, inc: int, r: int) -> bool { 2 * (r - q) == inc || 2 * (r - q) == -inc }
pub open spec fn round_ok(mode: RoundMode, q: int, inc: int, r: int) -> bool {
    &&& r % inc == 0                                   // whole multiple of the increment
    &&& -inc < r - q < inc                             // differs by less than one increment
    &&& (mode == RoundMode::Ceil ==> r >= q)
    &&& (mode == RoundMode::Floor ==> r <= q)
    &&& (mode == RoundMode::Trunc ==> (if q >= 0 { 0 <= r <= q } else { q <= r <= 0 }))
    &&& (mode == RoundMode::Expand ==> (if q >= 0 { r >= q } else { r <= q }))
    &&& (is_half(mode) ==> -inc <= 2 * (r - q) <= inc)           // nearest
    &&& (mode == RoundMode::HalfCeil && is_tie(q, inc, r) ==> r > q)
    &&& (mode == RoundMode::HalfFloor && is_tie(q, inc, r) ==> r < q)
    &&& (mode == RoundMode::HalfExpand && is_tie(q, inc, r) ==> (if q >= 0 { r > q } else { r < q }))
    &&& (mode == RoundMode::HalfTrunc && is_tie(q, inc, r) ==> (if q >= 0 { r < q } else { r > q }))
    &&& (mode == RoundMode::HalfEven && is_tie(q, inc, r) ==> r % (2 * inc) == 0)
}
// the rounded value is unique: any two results satisfying round_ok coincide (so round_ok *defines* rounding)
pub proof fn lemma_round_unique(mode: RoundMode, q: int, inc: int, r1: int, r2: int)
    requires inc > 0, round_ok(mode, q, inc, r1), round_ok(mode, q, inc, r2),
    ensures r1 == r2,
{
    // both are multiples of inc within (q - inc, q + inc): they are equal or differ by exactly inc
    let k1 = r1 / inc; let k2 = r2 / inc;
    vstd::arithmetic::div_mod::lemma_fundamental_div_mod(r1, inc);
    vstd::arithmetic::div_mod::lemma_fundamental_div_mod(r2, inc);
    assert(r1 == inc * k1 && r2 == inc * k2);
    if r1 != r2 {
        assert(-2 * inc < r1 - r2 < 2 * inc);
        assert(r1 - r2 == inc * (k1 - k2)) by (nonlinear_arith) requires r1 == inc * k1, r2 == inc * k2;
        assert(k1 - k2 == 1 || k1 - k2 == -1) by (nonlinear_arith) requires r1 - r2 == inc * (k1 - k2), -2 * inc < r1 - r2 < 2 * inc, inc > 0, r1 != r2;
        let lo = if r1 < r2 { r1 } else { r2 };
        let hi = if r1 < r2 { r2 } else { r1 };
        if k1 - k2 == 1 { assert(r1 - r2 == inc) by (nonlinear_arith) requires r1 - r2 == inc * (k1 - k2), k1 - k2 == 1; }
        else { assert(r1 - r2 == -inc) by (nonlinear_arith) requires r1 - r2 == inc * (k1 - k2), k1 - k2 == -1; }
        assert(hi - lo == inc);
        // q lies strictly between lo and hi (both within inc of q and q is not a multiple, else r==q forced)
        assert(lo < q < hi || q == lo || q == hi);
        if q == lo || q == hi { assert(false); }   // then the other one is a full increment away
        if mode == RoundMode::HalfEven && is_tie(q, inc, r1) {
            // consecutive multiples of inc cannot both be multiples of 2*inc
            let klo = lo / inc;
            vstd::arithmetic::div_mod::lemma_fundamental_div_mod(lo, inc);
            assert(lo % inc == 0 && hi % inc == 0);
            assert(false) by {
                vstd::arithmetic::div_mod::lemma_fundamental_div_mod(lo, 2 * inc);
                vstd::arithmetic::div_mod::lemma_fundamental_div_mod(hi, 2 * inc);
                let a = lo / (2 * inc); let b = hi / (2 * inc);
                assert(lo == (2 * inc) * a && hi == (2 * inc) * b);
                assert(hi - lo == (2 * inc) * (b - a)) by (nonlinear_arith) requires lo == (2 * inc) * a, hi == (2 * inc) * b;
                assert(false) by (nonlinear_arith) requires hi - lo == inc, hi - lo == (2 * inc) * (b - a), inc > 0;
            }
        }
    }
}


// ==== extracted from /repo ====

#[derive(Clone, Copy, Debug, Eq, PartialEq, Structural)]
pub enum RoundMode {
    
    
    
    
    
    Ceil,
    
    
    
    
    
    Floor,
    
    
    Expand,
    
    
    
    
    
    Trunc,
    
    
    HalfCeil,
    
    
    HalfFloor,
    
    
    
    
    
    
    
    
    HalfExpand,
    
    
    HalfTrunc,
    
    
    
    
    
    HalfEven,
}

// @fn RoundMode::round::inner @src src/util/round/mode.rs:116
#[verifier::spinoff_prover]
pub fn inner(
            mode: RoundMode,
            quantity: NoUnits128,
            increment: NoUnits128,
        ) -> (res: NoUnits128)
    requires
        0 < increment.val <= 0x7fff_ffff_ffff_ffff,
    -0x4000_0000_0000_0000_0000_0000 <= quantity.val <= 0x4000_0000_0000_0000_0000_0000,
    ensures
        round_ok(mode, quantity.val as int, increment.val as int, res.val as int),
{
            let mut quotient = quantity.div_ceil(increment);
            let remainder = quantity.rem_ceil(increment);
            proof {
                let q = quantity.val as int; let inc = increment.val as int;
                lemma_tdiv(q, inc);
            }

            if remainder == C(0) {
                proof { let q = quantity.val as int; let inc = increment.val as int; vstd::arithmetic::div_mod::lemma_mod_multiples_basic(tdiv(q, inc), inc); } return quantity;
            }
            let sign = if remainder < C(0) { C128(-1) } else { C128(1) };
            let tiebreaker = (remainder * C128(2)).abs();
            let tie = tiebreaker == increment;
            let expand_is_nearer = tiebreaker > increment;
            
            match mode {
                RoundMode::Ceil => {
                    if sign > C(0) {
                        quotient += sign;
                    }
                }
                RoundMode::Floor => {
                    if sign < C(0) {
                        quotient += sign;
                    }
                }
                RoundMode::Expand => {
                    quotient += sign;
                }
                RoundMode::Trunc => {}
                RoundMode::HalfCeil => {
                    if expand_is_nearer || (tie && sign > C(0)) {
                        quotient += sign;
                    }
                }
                RoundMode::HalfFloor => {
                    if expand_is_nearer || (tie && sign < C(0)) {
                        quotient += sign;
                    }
                }
                RoundMode::HalfExpand => {
                    if expand_is_nearer || tie {
                        quotient += sign;
                    }
                }
                RoundMode::HalfTrunc => {
                    if expand_is_nearer {
                        quotient += sign;
                    }
                }
                RoundMode::HalfEven => {
                    if expand_is_nearer || (tie && quotient % C(2) == C(1)) {
                        quotient += sign;
                    }
                }
            }
            proof {
                let q = quantity.val as int; let inc = increment.val as int;
                let k = quotient.val as int;
                assert(k * inc == tdiv(q, inc) * inc + (k - tdiv(q, inc)) * inc) by (nonlinear_arith);
                let t = tdiv(q, inc);
                assert(t * inc == q - trem(q, inc));
                assert(k - t == 0 || k - t == 1 || k - t == -1);
                assert((k - t) * inc == (if k - t == 1 { inc } else if k - t == -1 { -inc } else { 0 })) by (nonlinear_arith) requires k - t == 0 || k - t == 1 || k - t == -1;
                vstd::arithmetic::div_mod::lemma_mod_multiples_basic(k, inc);
                if k % 2 == 0 {
                    assert(k * inc == (k / 2) * (2 * inc)) by (nonlinear_arith) requires k % 2 == 0;
                    vstd::arithmetic::div_mod::lemma_mod_multiples_basic(k / 2, 2 * inc);
                }
            }

            
            
            
            
            
            quotient.saturating_mul(increment)
        }

// ==== end extracted ====


} // verus!
fn main() {}
